"""Verdict bookkeeping, known findings, evidence and exit-code discipline.

Exit codes: 0 = every rule instance PROVED or KNOWN-FINDING; 1 = at least one VIOLATION not listed in
known_findings.json; 2 = analysis broken / inconclusive (never a verdict about graphtage).
"""
import ast
import json
import os
import sys
import time
import traceback

VERIF = os.path.dirname(os.path.dirname(os.path.abspath(__file__)))
DEFAULT_REPO = os.environ.get("GT_REPO", "/repo")

PROVED, VIOLATION, KNOWN, INCONCLUSIVE = "PROVED", "VIOLATION", "KNOWN-FINDING", "INCONCLUSIVE"


class Inconclusive(Exception):
    """Raised by a rule when the shape it must reason about is not recognised."""


def norm(node_or_text, limit=140):
    """Normalised construct text: ast.unparse (layout-free), truncated."""
    if isinstance(node_or_text, ast.AST):
        try:
            s = ast.unparse(node_or_text)
        except Exception:
            s = ast.dump(node_or_text)
    else:
        s = str(node_or_text)
    s = " ".join(s.split())
    return s if len(s) <= limit else s[:limit - 1] + "…"


class Instance:
    __slots__ = ("rule", "key", "verdict", "file", "line", "func", "detail", "nontrivial", "path", "what", "digest")

    def __init__(self, rule, key, verdict, file, line, func, detail, nontrivial=False, path=None):
        self.rule, self.key, self.verdict = rule, key, verdict
        self.file, self.line, self.func = file, line, func
        self.detail, self.nontrivial, self.path = detail, nontrivial, path
        self.what = None
        self.digest = None

    def as_dict(self):
        d = {"rule": self.rule, "key": self.key, "verdict": self.verdict,
             "where": f"{self.file}:{self.line}" if self.file else None, "function": self.func,
             "detail": self.detail}
        if self.path:
            d["path"] = self.path
        if self.what:
            d["finding"] = self.what
        return d


class Ctx:
    """One run of the rules of one property over one source tree."""

    def __init__(self, prop, model, tier="quick", quiet=False):
        self.prop = prop
        self.model = model
        self.tier = tier
        self.quiet = quiet
        self.instances = []
        self.notes = []          # advisory / cross-reference lines (never verdicts)
        self.floors = []         # (rule, count, minimum)
        self.assumptions = []
        self.rules_run = {}      # rule -> description

    # ---- rule registration
    def rule(self, rid, description):
        self.rules_run[rid] = description

    # ---- keys
    def key(self, rule, file, func, construct):
        return f"{file}::{func}::{rule}::{norm(construct)}"

    def _add(self, verdict, rule, file, func, node, construct, detail, nontrivial=False, path=None):
        line = getattr(node, "lineno", None) if node is not None else None
        if isinstance(node, int):
            line = node
        k = self.key(rule, file, func, construct)
        inst = Instance(rule, k, verdict, file, line, func, detail, nontrivial, path)
        if verdict == VIOLATION:
            inst.digest = construct_digest(node)
        self.instances.append(inst)
        return inst

    def proved(self, rule, file, func, node, construct, detail, nontrivial=True):
        return self._add(PROVED, rule, file, func, node, construct, detail, nontrivial)

    def violation(self, rule, file, func, node, construct, detail, path=None):
        return self._add(VIOLATION, rule, file, func, node, construct, detail, True, path)

    def inconclusive(self, rule, file, func, node, construct, detail):
        return self._add(INCONCLUSIVE, rule, file, func, node, construct, detail, True)

    def note(self, text):
        self.notes.append(text)

    def floor(self, rule, count, minimum, what):
        """A rule that matches fewer sites than confirmed by hand is analysis-broken (exit 2)."""
        self.floors.append((rule, count, minimum, what))

    def assume(self, text):
        if text not in self.assumptions:
            self.assumptions.append(text)


def load_known():
    p = os.path.join(VERIF, "known_findings.json")
    if not os.path.exists(p):
        return []
    with open(p) as f:
        return json.load(f)["findings"]


def construct_digest(node):
    """Shape digest of the reported construct (a statement or expression; None for whole functions/classes and for
    reports without a node): ast.dump without positions, with every Name renamed by order of first occurrence, so that
    re-formatting and renaming locals keep the digest while any other edit of the construct changes it."""
    import ast as _ast
    import hashlib
    if node is None or not isinstance(node, _ast.AST) or isinstance(node, (_ast.FunctionDef, _ast.AsyncFunctionDef, _ast.ClassDef, _ast.Module)):
        return None
    names = {}

    class Canon(_ast.NodeTransformer):
        def visit_Name(self, n):
            return _ast.Name(id=names.setdefault(n.id, f"v{len(names)}"), ctx=_ast.Load())

        def visit_arg(self, n):
            return _ast.arg(arg=names.setdefault(n.arg, f"v{len(names)}"), annotation=None)
    import copy
    try:
        node = copy.deepcopy(node)
        if isinstance(node, _ast.If):
            node.orelse = []        # an `if` stands for its own test and body, not for the rest of an elif chain
        canon = Canon().visit(node)
        text = _ast.dump(canon, annotate_fields=False, include_attributes=False)
    except Exception:
        return None
    return hashlib.sha1(text.encode()).hexdigest()[:12]


def apply_known(ctx, known):
    """Turn listed violations into KNOWN-FINDING. Only status == 'known' entries suppress.  An entry that records the
    `digest` of the construct it was triaged on suppresses only while that construct is unchanged: an edit inside a
    construct with a recorded finding is a different violation and is reported."""
    used = []
    for inst in ctx.instances:
        if inst.verdict != VIOLATION:
            continue
        for k in known:
            if k.get("status") == "known" and k["property"] == ctx.prop and k["rule"] == inst.rule \
                    and k["key"] == inst.key:
                if k.get("digest") and inst.digest and k["digest"] != inst.digest:
                    inst.detail = ("[the construct of a recorded finding has been edited since it was triaged - recorded digest "
                                   f"{k['digest']}, now {inst.digest}] " + inst.detail)
                    break
                inst.verdict = KNOWN
                inst.what = k["what"]
                used.append(k)
                break
    return used


def finish(ctx, t0, seed=0, write=True, evidence_dir=None, reports_dir=None):
    """Print the report, write evidence (+ report on violation), return the exit code."""
    known = load_known()
    used = apply_known(ctx, known)
    out = []
    m = ctx.model
    out.append(f"== {ctx.prop} [{ctx.tier}] static analysis of {m.root}")
    out.append(f"   analysed: {len(m.mods)} modules, {len(m.classes)} classes, {len(m.functions)} functions; "
               f"rules: {', '.join(sorted(ctx.rules_run))}")
    counts = {}
    for i in ctx.instances:
        counts[i.verdict] = counts.get(i.verdict, 0) + 1
    out.append("   instances: " + ", ".join(f"{k}={v}" for k, v in sorted(counts.items())))
    broken = []
    for rule, count, minimum, what in ctx.floors:
        tag = "ok" if count >= minimum else "BELOW FLOOR"
        out.append(f"   floor {rule}: {count} {what} (minimum {minimum}) {tag}")
        if count < minimum:
            broken.append(f"ANALYSIS-ERROR property={ctx.prop} rule={rule}: matched {count} {what}, "
                          f"fewer than the floor {minimum} confirmed by hand - anchor vanished or rule blind")
    for i in ctx.instances:
        if i.verdict == PROVED and not ctx.quiet and os.environ.get("GT_VERBOSE"):
            out.append(f"   PROVED   {i.rule} {i.file}:{i.line} {i.func}: {i.detail}")
    for i in ctx.instances:
        if i.verdict == INCONCLUSIVE:
            broken.append(f"INCONCLUSIVE property={ctx.prop} rule={i.rule} at {i.file}:{i.line} in {i.func}: "
                          f"{i.detail}")
    for n in ctx.notes:
        out.append(f"   note: {n}")
    for i in ctx.instances:
        if i.verdict == KNOWN:
            out.append(f"KNOWN-FINDING: property={ctx.prop} rule={i.rule} {i.file}:{i.line} {i.func}: {i.what}")
    viol = [i for i in ctx.instances if i.verdict == VIOLATION]
    for i in viol:
        out.append(f"   violation rule={i.rule} at {i.file}:{i.line} in {i.func}: {i.detail}")
        if i.path:
            for step in i.path:
                out.append(f"       path: {step}")
        out.append(f"       key: {i.key}")
    wall = time.time() - t0
    code = 0
    evidence_dir = evidence_dir or os.path.join(VERIF, "evidence")
    reports_dir = reports_dir or os.path.join(VERIF, "reports")
    if viol:
        code = 1
    if broken:
        code = 2 if not viol else 1
    if viol and write:
        os.makedirs(reports_dir, exist_ok=True)
        rp = os.path.join(reports_dir, f"{ctx.prop}.json")
        with open(rp, "w") as f:
            json.dump({"property": ctx.prop, "tier": ctx.tier, "repo": m.root,
                       "violations": [i.as_dict() for i in viol]}, f, indent=1)
        out.append(f"VIOLATION property={ctx.prop} replay={rp}")
    elif viol:
        out.append(f"VIOLATION property={ctx.prop} replay=-")
    out.extend(broken)
    if write:
        os.makedirs(evidence_dir, exist_ok=True)
        insts = ctx.instances
        decided = [i for i in insts if i.verdict in (PROVED, KNOWN)]
        nontrivial_keys = {i.key for i in insts if i.nontrivial}
        samples = []
        seen_rules = {}
        for i in insts:
            if seen_rules.get(i.rule, 0) < 3:
                seen_rules[i.rule] = seen_rules.get(i.rule, 0) + 1
                samples.append(i.as_dict())
        ev = {
            "property_id": ctx.prop, "tier": ctx.tier, "seed": seed, "level": "other",
            "coverage": {
                "explanation": ("Static analysis of the working tree (no execution of graphtage in the deciding "
                                "step). Each obligation is one rule instance: a site, class, table cell or path "
                                "family named in DESIGN.md; discharged = PROVED or listed KNOWN-FINDING. "
                                "Rules: " + "; ".join(f"{k}: {v}" for k, v in sorted(ctx.rules_run.items()))),
                "obligations": len(insts), "discharged": len(decided),
                "evaluations": max(1, len(insts)), "distinct_nontrivial": len(nontrivial_keys),
                "rule": "one evaluation per rule instance found in the current source; non-trivial = the verdict "
                        "needed an actual argument (guard, dataflow fact, table comparison), distinct by key "
                        "(file, function, rule, normalised construct)",
                "samples": samples,
                "analysed": {"repo": m.root, "modules": len(m.mods), "classes": len(m.classes),
                             "functions": len(m.functions)},
                "per_rule": {r: {"instances": sum(1 for i in insts if i.rule == r),
                                 "proved": sum(1 for i in insts if i.rule == r and i.verdict == PROVED),
                                 "violations": sum(1 for i in insts if i.rule == r and i.verdict == VIOLATION),
                                 "known": sum(1 for i in insts if i.rule == r and i.verdict == KNOWN),
                                 "inconclusive": sum(1 for i in insts if i.rule == r and i.verdict == INCONCLUSIVE)}
                             for r in sorted(ctx.rules_run)},
                "floors": [{"rule": r, "count": c, "minimum": mn, "what": w} for r, c, mn, w in ctx.floors],
                "known_findings_applied": [k["key"] for k in used],
                "notes": ctx.notes,
                "extra": getattr(ctx, "extra", {}),
            },
            "assumptions": ctx.assumptions,
            "wall_s": round(wall, 3),
            "violations": len(viol),
        }
        with open(os.path.join(evidence_dir, f"{ctx.prop}.json"), "w") as f:
            json.dump(ev, f, indent=1, sort_keys=False)
    out.append(f"   exit={code} wall={wall:.2f}s")
    return code, "\n".join(out)


def guarded(fn):
    """Run fn(); any traceback becomes ANALYSIS-ERROR + exit 2 (never mistaken for a violation)."""
    try:
        return fn()
    except Inconclusive as e:
        print(f"INCONCLUSIVE {e}")
        return 2
    except SystemExit:
        raise
    except BaseException:
        print("ANALYSIS-ERROR internal error in checker:")
        traceback.print_exc(file=sys.stdout)
        return 2
