"""C08 witness: with a tuple (or frozenset) key among plain keys, whether the mapping can be built at all depends on
the order of its keys.

`DictNode.from_dict` sorts the key/value pairs; `KeyValuePairNode.__lt__` asks `self.key < other.key`.  A leaf key
knows how to order itself against anything (LeafNode.__lt__ falls back on `_order_key`), a container key (ListNode for a
tuple, MultiSetNode for a frozenset) has no `__lt__` at all.  `list.sort` asks `later < earlier`, so
`{(1, 2): 2, 'a': 1}` builds (StringNode < ListNode is answered) while the same mapping written `{'a': 1, (1, 2): 2}`
dies with TypeError (ListNode < StringNode is not).
"""
import os
import pickle
import sys
import tempfile

from graphtage import pydiff
from graphtage.builder import BasicBuilder
from graphtage.graphtage import BuildOptions
from graphtage.pickle import Pickle
from graphtage.printer import DEFAULT_PRINTER

DEFAULT_PRINTER.quiet = True


def cost(t1, t2) -> int:
    edit = t1.edits(t2)
    while edit.tighten_bounds():
        pass
    b = edit.bounds()
    assert b.definitive(), b
    return b.upper_bound


def attempt(build, obj):
    try:
        return "ok", build(obj)
    except Exception as e:  # noqa
        return f"{type(e).__name__}: {e}", None


CASES = [
    ({(1, 2): 2, 'a': 1}, {'a': 1, (1, 2): 2}),
    ({(1, 2): 2, 5: 1}, {5: 1, (1, 2): 2}),
    ({frozenset({1}): 1, 'a': 2}, {'a': 2, frozenset({1}): 1}),
    ({'k': {(1, 2): 2, 'a': 1}}, {'k': {'a': 1, (1, 2): 2}}),   # one level down
]

failures = []
with tempfile.TemporaryDirectory() as d:
    def from_pickle(obj):
        path = os.path.join(d, "x.pkl")
        with open(path, "wb") as f:
            pickle.dump(obj, f)
        return Pickle.default_instance.build_tree(path, BuildOptions())

    BUILDERS = {
        "BasicBuilder": lambda o: BasicBuilder(BuildOptions()).build_tree(o),
        "BasicBuilder/match": lambda o: BasicBuilder(BuildOptions(auto_match_keys=False)).build_tree(o),
        "pydiff.build_tree": lambda o: pydiff.build_tree(o, BuildOptions()),
        "pickle file": from_pickle,
    }
    for doc, permuted in CASES:
        assert doc == permuted
        for name, build in BUILDERS.items():
            s1, t1 = attempt(build, doc)
            s2, t2 = attempt(build, permuted)
            if s1 != s2:
                failures.append(f"[{name}] {doc!r} -> {s1}   but its key-permuted copy {permuted!r} -> {s2}")
            elif t1 is not None:
                c = cost(t1, t2)
                if c != 0:
                    failures.append(f"[{name}] {doc!r} vs {permuted!r}: cost {c}, expected 0")

if failures:
    print("C08 VIOLATION: reordering the keys of a mapping decides whether it can be loaded/compared")
    for f in failures:
        print("  " + f)
    sys.exit(1)
print("ok")
sys.exit(0)
