"""Thorough tier: checker self-validation (seeded mutants + kept seeded changes on scratch copies), clean-copy silence,
and a non-deciding cross-check of the static model against the imported package.

None of this decides a property.  A mutant that is not caught, a scratch copy that is not silent, or a model mismatch
makes the run INCONCLUSIVE (exit 2: the checker is broken), never a violation of graphtage.
"""
import ast
import concurrent.futures as cf
import json
import os
import shutil
import subprocess
import sys
import tempfile

from . import core, mutants

VERIF = core.VERIF


def _copy_pkg(src_root, dst_root):
    os.makedirs(dst_root, exist_ok=True)
    shutil.copytree(os.path.join(src_root, "graphtage"), os.path.join(dst_root, "graphtage"),
                    ignore=shutil.ignore_patterns("__pycache__", "*.pyc"))


def _run_rules(prop, root):
    from .__main__ import run_rules
    ctx = run_rules(prop, root, "quick", quiet=True)
    core.apply_known(ctx, core.load_known())
    viol = [(i.rule, i.key, i.detail) for i in ctx.instances if i.verdict == core.VIOLATION]
    inc = [(i.rule, i.detail) for i in ctx.instances if i.verdict == core.INCONCLUSIVE]
    floors = [(r, c, mn) for r, c, mn, w in ctx.floors if c < mn]
    return viol, inc, floors


def _one_mutant(args):
    prop, src_root, base, kind, spec = args[:5]
    pre = args[5] if len(args) > 5 else None      # a behaviour-preserving refactoring applied first (cross matrix)
    d = tempfile.mkdtemp(prefix="m_", dir=base)
    try:
        _copy_pkg(src_root, d)
        if pre is not None:
            r = subprocess.run(["git", "apply", "--whitespace=nowarn", "-p1", pre], cwd=d, capture_output=True, text=True)
            if r.returncode != 0:
                return ("skipped", None, str(spec)[:40], "refactoring does not apply to the tree under analysis")
        if kind == "text":
            _, rule, fname, old, new, desc = spec
            p = os.path.join(d, "graphtage", fname)
            with open(p, encoding="utf-8") as f:
                s = f.read()
            if s.count(old) != 1:
                return ("skipped", rule, desc, f"anchor occurs {s.count(old)}x in {fname}")
            s2 = s.replace(old, new)
            try:
                compile(s2, p, "exec")
            except SyntaxError as e:
                return ("broken", rule, desc, f"mutant does not compile: {e}")
            with open(p, "w", encoding="utf-8") as f:
                f.write(s2)
            label = f"{fname}: {desc}"
        else:
            sid, patch = spec
            rule, desc, label = None, sid, f"seeded/{sid}"
            if pre is None:
                r = subprocess.run(["git", "apply", "--whitespace=nowarn", "-p1", patch], cwd=d, capture_output=True, text=True)
            else:
                r = subprocess.run(["patch", "-p1", "-F2", "-s", "--no-backup-if-mismatch", "-i", patch], cwd=d, capture_output=True, text=True)
                if r.returncode == 0:
                    import re as _re
                    for fn_ in _re.findall(r"^\+\+\+ b/(\S+)", open(patch).read(), _re.M):
                        try:
                            compile(open(os.path.join(d, fn_), encoding="utf-8").read(), fn_, "exec")
                        except SyntaxError:
                            return ("skipped", rule, desc, "seed and refactoring conflict")
            if r.returncode != 0:
                return ("skipped", rule, desc, "patch does not apply to the tree under analysis")
        viol, inc, floors = _run_rules(prop, d)
        hit = [v for v in viol if rule is None or v[0] == rule]
        if hit:
            return ("caught", rule or hit[0][0], desc, hit[0][2][:160])
        if rule is None and (inc or floors):
            return ("caught-as-inconclusive", None, desc, str((inc or floors)[0])[:160])
        others = sorted({v[0] for v in viol})
        return ("missed", rule, desc, f"no violation of {rule or 'any rule'} (other rules fired: {others}; inconclusive: {len(inc)})")
    except BaseException as e:   # noqa
        return ("error", None, str(spec)[:60], f"{type(e).__name__}: {e}")
    finally:
        shutil.rmtree(d, ignore_errors=True)


def _one_refactor(args):
    prop, src_root, base, spec = args
    d = tempfile.mkdtemp(prefix="r_", dir=base)
    try:
        _copy_pkg(src_root, d)
        if spec == "REFORMAT":
            import glob
            for p in glob.glob(os.path.join(d, "graphtage", "*.py")):
                with open(p, encoding="utf-8") as f:
                    src = f.read()
                with open(p, "w", encoding="utf-8") as f:
                    f.write(ast.unparse(ast.parse(src)) + "\n")
            desc = "whole package re-emitted through ast.unparse (full reformat, comments dropped)"
        elif spec == "ALPHA":
            import glob
            from .refactors import alpha_rename_source
            for p in glob.glob(os.path.join(d, "graphtage", "*.py")):
                with open(p, encoding="utf-8") as f:
                    src = f.read()
                out = alpha_rename_source(src)
                compile(out, p, "exec")
                with open(p, "w", encoding="utf-8") as f:
                    f.write(out)
            desc = "every local variable of every function renamed (the test suite passes on this copy)"
        elif isinstance(spec, tuple) and spec[0] == "PATCH":
            import subprocess
            _, path, desc = spec
            r = subprocess.run(["git", "apply", "--whitespace=nowarn", "-p1", path], cwd=d, capture_output=True, text=True)
            if r.returncode:
                return ("skipped", desc, "patch does not apply to the tree under analysis")
        else:
            fname, edits, desc, props = spec
            p = os.path.join(d, "graphtage", fname)
            with open(p, encoding="utf-8") as f:
                s = f.read()
            for old, new in edits:
                if s.count(old) != 1:
                    return ("skipped", desc, "anchor moved")
                s = s.replace(old, new)
            compile(s, p, "exec")
            with open(p, "w", encoding="utf-8") as f:
                f.write(s)
        viol, inc, floors = _run_rules(prop, d)
        # a refactor that edits the very construct of a recorded finding re-reports that finding (its digest no longer
        # matches): the construct violates the property before and after, so this is not a false alarm
        restated = [v for v in viol if v[2].startswith("[the construct of a recorded finding has been edited")]
        viol = [v for v in viol if v not in restated]
        if viol:
            return ("false-alarm", desc, f"{viol[0][0]}: {viol[0][2][:140]}")
        if restated:
            return ("silent", desc, f"(re-states the recorded finding {restated[0][0]} whose construct the refactor edits)")
        if inc or floors:
            return ("inconclusive", desc, str((inc or floors)[0])[:140])
        return ("silent", desc, "")
    except BaseException as e:   # noqa
        return ("error", str(spec)[:60], f"{type(e).__name__}: {e}")
    finally:
        shutil.rmtree(d, ignore_errors=True)


def seeded_for(prop):
    """Kept seeded changes whose meta says this property's check catches them."""
    out = []
    sd = os.path.join(VERIF, "seeded")
    if not os.path.isdir(sd):
        return out
    for sid in sorted(os.listdir(sd)):
        mp = os.path.join(sd, sid, "meta.json")
        pp = os.path.join(sd, sid, "patch.diff")
        if os.path.exists(mp) and os.path.exists(pp):
            try:
                meta = json.load(open(mp))
            except Exception:
                continue
            if prop in meta.get("caught_by", []):
                out.append((sid, pp))
    return out


def model_crosscheck(ctx):
    """Compare the static class table / MROs / FORMATTERS order / dispatch with the imported package (non-deciding)."""
    m = ctx.model
    script = r'''
import sys, json, inspect, importlib
sys.path.insert(0, sys.argv[1])
import colorama
colorama.init = lambda *a, **k: None
import graphtage
from graphtage import formatter as F
out = {"mro": {}, "formatters": [type(f).__name__ for f in F.FORMATTERS], "dispatch": {}}
mods = {}
import pkgutil
for mi in pkgutil.iter_modules(graphtage.__path__):
    if mi.name == "__main__":
        continue
    mods["graphtage." + mi.name] = importlib.import_module("graphtage." + mi.name)
static = set(json.loads(sys.argv[2]))
classes = {}
byid = {}
for mn, mod in mods.items():
    for n, o in vars(mod).items():
        if inspect.isclass(o) and n == o.__name__ and (mn + "." + n) in static and id(o) not in byid:
            classes[mn + "." + n] = o
            byid[id(o)] = mn + "." + n
for q, c in classes.items():
    out["mro"][q] = [byid[id(k)] for k in c.__mro__ if id(k) in byid]
from graphtage import tree as T
for ft in graphtage.FILETYPES_BY_TYPENAME.values():
    root = ft.get_default_formatter()
    for q, c in classes.items():
        if inspect.isclass(c) and issubclass(c, T.TreeNode) and not inspect.isabstract(c):
            for edited in (False, True):
                try:
                    k = c.edited_type() if edited else c
                except Exception:
                    continue
                h = F.get_formatter(k, root)
                out["dispatch"][f"{type(root).__name__}|{q}|{int(edited)}"] = None if h is None else f"{type(h.__self__).__name__}.{h.__name__}"
print(json.dumps(out))
'''
    top = sorted(q for q in m.classes if q.count(".") == 2)
    r = subprocess.run(["/venv/bin/python", "-c", script, m.root, json.dumps(top)], capture_output=True, text=True, timeout=300,
                       env={**os.environ, "PYTHONHASHSEED": "0"})
    if r.returncode != 0:
        ctx.note(f"model cross-check skipped: importing the package failed ({r.stderr.strip().splitlines()[-1][:120] if r.stderr.strip() else 'no output'})")
        return {"status": "skipped"}
    rt = json.loads(r.stdout.strip().splitlines()[-1])
    mism = []
    n_mro = 0
    for q, mro in rt["mro"].items():
        if q in m.classes:
            n_mro += 1
            st = [k for k in m.c3(q) if k in rt["mro"]]
            if st != [k for k in mro if k in m.classes]:
                mism.append(f"MRO of {q}: static {[x.rsplit('.', 1)[-1] for x in st]} vs runtime {[x.rsplit('.', 1)[-1] for x in mro]}")
    fmts, default = m.formatter_registry()
    if [f.name for f in fmts] != rt["formatters"]:
        mism.append(f"FORMATTERS order: static {[f.name for f in fmts]} vs runtime {rt['formatters']}")
    n_cells = 0
    injected = {f"{c.rsplit('.', 1)[-1]}.{n}": fq.rsplit(".", 1)[-1] for c, n, fq in m.injected}
    by_name = {inst.name: inst for inst in default.values()}
    for key, h in rt["dispatch"].items():
        rootn, q, edited = key.split("|")
        if q not in m.classes or rootn not in by_name:
            continue
        n_cells += 1
        r2 = m.get_formatter(m.node_mro_names(q, edited == "1"), by_name[rootn])
        sh = None
        if r2 is not None:
            owner, hname = r2
            f = m.method(owner.q, hname)
            sh = f"{owner.name}.{f.node.name if f is not None else hname}"
        if sh != h:
            mism.append(f"dispatch {key}: static {sh} vs runtime {h}")
    for x in mism[:10]:
        ctx.inconclusive("MODEL", "-", "model cross-check", None, x[:80], "static model disagrees with the imported package: " + x)
    return {"status": "ok" if not mism else "mismatch", "classes_compared": n_mro, "dispatch_cells_compared": n_cells,
            "mismatches": len(mism)}


def extend(ctx):
    prop = ctx.prop
    src_root = ctx.model.root
    base = tempfile.mkdtemp(prefix="gtstatic_thorough_")
    summary = {"mutants": [], "seeded": [], "clean_copy": None}
    try:
        jobs = [(prop, src_root, base, "text", mu) for mu in mutants.for_property(prop)]
        jobs += [(prop, src_root, base, "patch", s) for s in seeded_for(prop)]
        with cf.ProcessPoolExecutor(max_workers=min(16, max(1, len(jobs)))) as ex:
            results = list(ex.map(_one_mutant, jobs))
        caught = missed = skipped = 0
        for job, (status, rule, desc, detail) in zip(jobs, results):
            rec = {"kind": job[3], "rule": rule, "what": desc, "status": status, "detail": detail}
            (summary["mutants"] if job[3] == "text" else summary["seeded"]).append(rec)
            if status.startswith("caught"):
                caught += 1
            elif status == "skipped":
                skipped += 1
            else:
                missed += 1
                ctx.inconclusive("SELFTEST", "-", "self-validation", None, f"{job[3]}:{desc}"[:80],
                                 f"seeded {'mutant' if job[3] == 'text' else 'change'} `{desc}` (expected rule {rule}) was not "
                                 f"reported: {detail} - the checker is broken, not graphtage")
        # cross matrix: the same mutants and kept changes, applied on top of every agent refactoring that touches their file -
        # a rule generalised to stay silent on a refactoring must still see the breaking change in the refactored shape
        import re as _re
        pdir_ = os.path.join(VERIF, "refactor_patches")
        xjobs = []
        if os.path.isdir(pdir_):
            for fn in sorted(os.listdir(pdir_)):
                if not (fn.endswith(".diff") and "__" in fn and prop in fn.split("__", 1)[0].split(",")):
                    continue
                rp = os.path.join(pdir_, fn)
                rfiles = set(_re.findall(r"^\+\+\+ b/(\S+)", open(rp).read(), _re.M))
                for mu in mutants.for_property(prop):
                    if "graphtage/" + mu[2] in rfiles:
                        xjobs.append((prop, src_root, base, "text", mu, rp))
                for sd_ in seeded_for(prop):
                    if set(_re.findall(r"^\+\+\+ b/(\S+)", open(sd_[1]).read(), _re.M)) & rfiles:
                        xjobs.append((prop, src_root, base, "patch", sd_, rp))
        if xjobs:
            with cf.ProcessPoolExecutor(max_workers=min(16, len(xjobs))) as ex:
                xres = list(ex.map(_one_mutant, xjobs, chunksize=2))
            xc = sum(1 for r_ in xres if r_[0].startswith("caught"))
            xs = sum(1 for r_ in xres if r_[0] == "skipped")
            summary["cross"] = {"combinations": len(xres), "caught": xc, "skipped_conflict": xs,
                                "missed": [{"what": r_[2], "after": os.path.basename(j_[5]), "detail": r_[3]} for j_, r_ in zip(xjobs, xres)
                                           if not r_[0].startswith("caught") and r_[0] != "skipped"]}
            for j_, r_ in zip(xjobs, xres):
                if not r_[0].startswith("caught") and r_[0] != "skipped":
                    ctx.inconclusive("SELFTEST", "-", "self-validation", None, f"cross:{r_[2]}@{os.path.basename(j_[5])}"[:80],
                                     f"`{r_[2]}` applied on top of the refactoring {os.path.basename(j_[5])} was not reported: {r_[3]} - "
                                     f"the rule went blind on the refactored shape")
            ctx.rule("CROSS", f"mutants and kept changes on top of agent refactorings: {xc} caught, {xs} conflicting combinations skipped, "
                              f"{len(xres) - xc - xs} missed")
            if xc:
                ctx.proved("CROSS", "-", "self-validation", None, f"{prop} cross matrix",
                           f"{xc} of {len(xres) - xs} applicable (breaking change after behaviour-preserving refactoring) combinations are reported")
        # behaviour-preserving refactors must not raise an alarm
        from . import refactors
        rjobs = [(prop, src_root, base, "REFORMAT"), (prop, src_root, base, "ALPHA")] + [(prop, src_root, base, r) for r in refactors.REFACTORS if prop in r[3]]
        # refactorings produced by independent agents (kept as patch files; the file name lists the properties they concern)
        pdir = os.path.join(os.path.dirname(os.path.dirname(os.path.abspath(__file__))), "refactor_patches")
        if os.path.isdir(pdir):
            for fn in sorted(os.listdir(pdir)):
                if fn.endswith(".diff") and "__" in fn and prop in fn.split("__", 1)[0].split(","):
                    rjobs.append((prop, src_root, base, ("PATCH", os.path.join(pdir, fn), "agent refactoring: " + fn.split("__", 1)[1][:-5])))
        with cf.ProcessPoolExecutor(max_workers=min(16, len(rjobs))) as ex:
            rres = list(ex.map(_one_refactor, rjobs))
        summary["refactors"] = [{"what": d_, "status": st, "detail": det} for st, d_, det in rres]
        silent = sum(1 for st, _, _ in rres if st == "silent")
        for st, d_, det in rres:
            if st in ("false-alarm", "error"):
                ctx.inconclusive("SELFTEST", "-", "self-validation", None, f"refactor:{d_}"[:80],
                                 f"behaviour-preserving refactor `{d_}` made the check report {det} - a false alarm of the checker")
        ctx.rule("REFACTOR", f"silence under behaviour-preserving refactors: {silent} of {len(rres)} silent (full ast.unparse "
                             f"reformat of the package + renames / reorderings / extractions in the code this property reads)")
        if silent:
            ctx.proved("REFACTOR", "-", "self-validation", None, f"{prop} refactor silence",
                       f"{silent} of {len(rres)} behaviour-preserving rewrites leave the verdict unchanged "
                       f"({sum(1 for st, _, _ in rres if st == 'inconclusive')} inconclusive, "
                       f"{sum(1 for st, _, _ in rres if st == 'skipped')} skipped)")
        # clean scratch copy must reproduce the verdict of the tree under analysis
        d = tempfile.mkdtemp(prefix="clean_", dir=base)
        _copy_pkg(src_root, d)
        viol, inc, floors = _run_rules(prop, d)
        core.apply_known(ctx, core.load_known())
        mine = sorted((i.rule, i.key) for i in ctx.instances if i.verdict == core.VIOLATION)
        same = sorted((v[0], v[1]) for v in viol) == mine
        summary["clean_copy"] = {"same_verdicts": same, "violations": len(viol)}
        if not same:
            ctx.inconclusive("SELFTEST", "-", "self-validation", None, "clean copy", "an untouched scratch copy does not reproduce the verdicts of the tree under analysis")
        summary["counts"] = {"caught": caught, "missed": missed, "skipped": skipped}
        ctx.rule("SELFTEST", f"checker self-validation: {caught} seeded mutants/changes caught, {skipped} skipped (anchor moved), "
                             f"{missed} missed; clean scratch copy reproduces the verdicts")
        if caught:
            ctx.proved("SELFTEST", "-", "self-validation", None, f"{prop} battery",
                       f"{caught} of {caught + missed} applicable seeded mutants / kept seeded changes are reported by the named rule",
                       nontrivial=True)
        summary["model"] = model_crosscheck(ctx)
        ctx.rule("MODEL", "non-deciding cross-check of the static class table, MROs, FORMATTERS order and dispatch cells "
                          "against the imported package")
        if summary["model"].get("status") == "ok":
            ctx.proved("MODEL", "-", "model cross-check", None, "static model == runtime",
                       f"{summary['model']['classes_compared']} MROs and {summary['model']['dispatch_cells_compared']} dispatch "
                       f"cells agree with the imported package; FORMATTERS order agrees")
    finally:
        shutil.rmtree(base, ignore_errors=True)
    ctx.extra = getattr(ctx, "extra", None) or {}
    ctx.extra["thorough"] = summary
