"""C06 witness: an int and a float of the same value (1 / 1.0, 0.0 / -0.0, 100 / 1e2) are "equal" for the containers
(LeafNode.__eq__ -> no change mark) but "different" for LeafNode.edits (str-based distance -> change mark). Whichever
notion of document equality one adopts, one of the two renderings breaks "no change marks exactly when equal";
a single rendering can even show the same 1 -> 1.0 change marked in one place and unmarked in another."""
import io
import re
import sys

import graphtage
import graphtage.printer as gprinter
from graphtage import json as gjson
from graphtage.printer import Printer

gprinter.DEFAULT_PRINTER.quiet = True


def render(a, b, color=False, **build_options):
    opts = graphtage.BuildOptions(**build_options)
    ta, tb = gjson.build_tree(a, opts), gjson.build_tree(b, opts)
    out = io.StringIO()
    p = Printer(out, ansi_color=color, quiet=True, options={'join_lists': True, 'join_dict_items': True})
    with p:
        gjson.JSONFormatter.DEFAULT_INSTANCE.print(p, ta.diff(tb))
    return out.getvalue()


def has_marks(text):
    return any(m in text for m in ('~~', '++', ' -> ', '\x1b[41m', '\x1b[42m', '̶', '̟'))


failures = []
for x, y in ((1, 1.0), (0.0, -0.0), (100, 1e2)):
    for color in (False, True):
        bare = render(x, y, color)                      # the two numbers as whole documents
        in_list = render([x], [y], color)               # the same two numbers inside a list
        in_dict = render({"k": x}, {"k": y}, color)     # ... and as a dictionary value
        verdicts = {'bare': has_marks(bare), 'in list': has_marks(in_list), 'in dict': has_marks(in_dict)}
        if len(set(verdicts.values())) != 1:
            failures.append(
                f"color={color}: {x!r} vs {y!r}: change marks present? {verdicts} "
                f"(bare rendering {re.sub(chr(27) + r'.[0-9]+m', '', bare)!r}, in a list "
                f"{re.sub(chr(27) + r'.[0-9]+m', '', in_list)!r})"
            )

# one rendering, the same pair of leaves, two verdicts (--no-list-edits)
text = render([[1], [1, 5]], [[1.0], [1.0, 6]], allow_list_edits=False)
marked = text.count('1 -> 1.0')
if marked not in (0, 2):
    failures.append(f"[[1],[1,5]] vs [[1.0],[1.0,6]] with allow_list_edits=False renders as {text!r}: "
                    f"1 -> 1.0 happens twice but is marked {marked} time(s)")

if failures:
    print("C06 VIOLATED:")
    for f in failures:
        print("  " + f)
    sys.exit(1)
print("ok")
sys.exit(0)
