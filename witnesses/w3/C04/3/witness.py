"""C04 witness: the edit created for two unequal byte strings can never be refined to a single value.

BasicBuilder.build_str (used by graphtage.pydiff.build_tree, and by ast_to_tree for Python sources and pickles) wraps
`bytes` in a StringNode.  StringNode.edits() then creates a StringEdit whose EditDistance works on the *integers* obtained
by iterating the bytes; as soon as two different integers have to be compared, StringNode.edits() calls len() on an int.
The edit exposes a non-definitive interval ([0, 8]) and every attempt to refine it raises TypeError: the interval never
becomes a single value (and get_all_edits()/diff() crash).

Exit status 1 when the violation shows, 0 otherwise.
"""
import ast as pyast
import logging
import sys

logging.disable(logging.CRITICAL)

from graphtage.printer import DEFAULT_PRINTER
from graphtage.pydiff import ast_to_tree, build_tree

DEFAULT_PRINTER.quiet = True

problems = []


def check(name, from_tree, to_tree):
    edit = from_tree.edits(to_tree)
    start = edit.bounds()
    steps = 0
    try:
        while edit.tighten_bounds():
            steps += 1
            if steps > 10000:
                problems.append(f"{name}: more than 10000 refinement steps")
                return
    except Exception as e:  # noqa
        problems.append(
            f"{name}: {type(edit).__name__} started at {start}; refinement step {steps + 1} raised "
            f"{type(e).__name__}: {e}; the interval is stuck at {edit.bounds() if _safe(edit) else '<bounds() raises>'}"
        )
        return
    if not edit.bounds().definitive():
        problems.append(f"{name}: refinement stopped at {edit.bounds()}")


def _safe(edit):
    try:
        edit.bounds()
        return True
    except Exception:  # noqa
        return False


check("pydiff.build_tree([b'ab']) -> [b'ac']", build_tree([b"ab"]), build_tree([b"ac"]))
check("pydiff.build_tree(b'ab') -> 'ab'", build_tree(b"ab"), build_tree("ab"))
check("python source  x = b'ab'  ->  x = b'ac'", ast_to_tree(pyast.parse('x = b"ab"')), ast_to_tree(pyast.parse('x = b"ac"')))

if problems:
    print("C04 violated (byte strings cannot be refined):")
    for p in problems:
        print("  -", p)
    sys.exit(1)
print("no violation observed")
sys.exit(0)
