"""BuildOptions.copy() - the documented way to derive a variant of a set of build options (say, the same options but
with ignore_cycles switched on) - raises TypeError for every options object; so do copy.deepcopy and pickle."""
import copy
import pickle
import sys

from graphtage import BuildOptions
from graphtage.builder import BasicBuilder

failed = False
base = BuildOptions(allow_key_edits=False, allow_list_edits=False)
for name, fn, decisive in (("BuildOptions.copy()", lambda o: o.copy(), True),
                           ("copy.deepcopy", copy.deepcopy, False),           # same cause; reported, not decisive
                           ("pickle round trip", lambda o: pickle.loads(pickle.dumps(o)), False)):
    try:
        variant = fn(base)
    except Exception as e:
        print(f"{name} raised {type(e).__name__}: {e}" + ("" if decisive else "   (informational)"))
        failed = failed or decisive
        continue
    variant.ignore_cycles = True
    if base.ignore_cycles or variant.allow_key_edits or variant.allow_list_edits or not variant.check_for_cycles:
        print(f"{name}: the copy does not carry the same options / is not independent")
        failed = True
        continue
    a = []
    a.append(a)
    tree = BasicBuilder(variant).build_tree({"k": a})
    if type(tree).__name__ != "FixedKeyDictNode":
        print(f"{name}: copied options not honoured, got {type(tree).__name__}")
        failed = True
sys.exit(1 if failed else 0)
