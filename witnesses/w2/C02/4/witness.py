"""C02 witness: XML documents whose element text differs only in leading/trailing whitespace characters
(`<a> x </a>` vs `<a>x</a>`, `<a> </a>` vs `<a/>`) are reported as identical, exit status 0 -- although the very same
whitespace difference is priced and displayed as soon as the element differs in anything else as well."""
import os, subprocess, sys, tempfile
import xml.etree.ElementTree as ET

from graphtage import BuildOptions
from graphtage.xml import build_tree

problems = []


def cli(a, b, *args):
    with tempfile.TemporaryDirectory() as d:
        pa, pb = os.path.join(d, 'a.xml'), os.path.join(d, 'b.xml')
        open(pa, 'w').write(a)
        open(pb, 'w').write(b)
        p = subprocess.run([sys.executable, '-m', 'graphtage', '--no-status', '--no-color', *args, pa, pb],
                           capture_output=True, text=True)
        return p.returncode, p.stdout


def lib_cost(a, b):
    o = BuildOptions()
    e = build_tree(ET.fromstring(a), o).edits(build_tree(ET.fromstring(b), o))
    while e.tighten_bounds():
        pass
    return e.bounds().upper_bound


# (from, to, counts): the last two pairs (pure indentation / whitespace-only text) are shown for information only
cases = [
    ('<a> x </a>', '<a>x</a>', True),
    ('<r><a>x y </a></r>', '<r><a>x y</a></r>', True),
    ('<a>x</a>', '<a>x\n</a>', False),
    ('<a> </a>', '<a/>', False),
]
for a, b, counts in cases:
    assert ET.fromstring(a).text != ET.fromstring(b).text or \
        [c.text for c in ET.fromstring(a)] != [c.text for c in ET.fromstring(b)]      # the parsed data do differ
    c = lib_cost(a, b)
    print(f"library: {a!r} vs {b!r}: cost {c}")
    if not counts:
        continue
    if c == 0:
        problems.append(f"library: {a!r} vs {b!r}: cost 0")
    for args in ((), ('-e',), ('-k',), ('-l',)):
        rc, out = cli(a, b, *args)
        if rc == 0:
            problems.append(f"CLI {args}: {a!r} vs {b!r}: exit status 0")
# the same one-character text difference is charged for when something else in the element differs too
c1 = lib_cost('<a k="1">x</a>', '<a k="2">x</a>')
c2 = lib_cost('<a k="1"> x </a>', '<a k="2">x</a>')
print(f"library: attribute change alone costs {c1}; attribute change plus the whitespace difference costs {c2}")
if problems:
    print("VIOLATION: text differing in surrounding whitespace compares equal:")
    for p in problems:
        print("  -", p)
    sys.exit(1)
print("ok")
sys.exit(0)
