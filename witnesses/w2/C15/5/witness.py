"""A float weight of +inf in a COMPLETE table makes the routine raise instead of returning a maximum pairing."""
import sys
from graphtage.matching import min_weight_bipartite_matching

inf = float('inf')
tables = [
    [[inf]],
    [[inf, inf], [1.0, 2.0]],
    [[1.0, inf], [2.0, inf]],
]
problems = []
for t in tables:
    n, m = len(t), len(t[0])
    try:
        res = min_weight_bipartite_matching(range(n), range(m), lambda i, j: t[i][j])
    except Exception as e:
        problems.append(f"{t}: {type(e).__name__}: {e}")
        continue
    if len(res) != min(n, m):
        problems.append(f"{t}: only {len(res)} pairs: {dict(res)}")
# control: an inf that the optimum can avoid is accepted, so inf is not rejected as a weight per se
ctrl = min_weight_bipartite_matching(range(2), range(2), lambda i, j: [[inf, 1.0], [1.0, inf]][i][j])
assert {int(k): int(v[0]) for k, v in ctrl.items()} == {0: 1, 1: 0}
if problems:
    print("VIOLATION: complete float table with +inf weights is not assigned")
    for p in problems:
        print("  " + p)
    sys.exit(1)
print("ok")
