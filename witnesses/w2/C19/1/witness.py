"""C19 witness 1: Expression.get_value()/eval() run isinstance() on *evaluated values*; isinstance() falls back to
reading value.__class__ through the value's own __getattribute__, i.e. the evaluator itself reads an underscore
attribute of every intermediate object (member chains, call results, subscripts, parenthesised values)."""
import sys
from graphtage.expressions import parse

READS = []


class Trip:
    """Every read of an underscore attribute of an instance is recorded."""
    def __init__(self, depth=2):
        object.__setattr__(self, '_secret', 42)
        object.__setattr__(self, 'pub', 7)
        if depth:
            object.__setattr__(self, 'child', Trip(depth - 1))

    def __getattribute__(self, name):
        if name.startswith('_'):
            READS.append(name)
        return object.__getattribute__(self, name)

    def method(self, *args):
        return self

    def __getitem__(self, item):
        return self


bad = []
# control: a bare variable / one member access must not read anything private (and does not)
for expr in ('x', 'x.pub'):
    READS.clear()
    parse(expr).eval(locals={'x': Trip()})
    if READS:
        bad.append((expr, list(READS)))

# only public names are used in these expressions; none of them may touch an underscore attribute
for expr in ('x.child.pub',          # member chain: get_value(<Trip>) before the second '.'
             '(x.child)',            # final isinstance(values[0], IdentifierToken) in Expression.eval
             'x.method(1).pub',      # call result
             'x[0].pub',             # subscript result
             'x.child == 1',         # operand of an infix operator
             'len([x.child])'):      # element of a list display / call argument
    READS.clear()
    try:
        parse(expr).eval(locals={'x': Trip()})
    except Exception as e:  # an exception is fine, a private read is not
        pass
    if READS:
        bad.append((expr, list(READS)))

if bad:
    for expr, reads in bad:
        print(f"VIOLATION: evaluating {expr!r} read private attribute(s) {reads} of an environment object")
    sys.exit(1)
print("ok: no underscore attribute was read")
sys.exit(0)
