"""Static model of graphtage's command line: the argparse specification read from `main`, and a finite evaluator
(E7) for the pure option logic (if-chains over flags).  This evaluates expressions found in the AST over a finite
abstract domain; it never runs graphtage."""
import ast

from .astx import dotted, call_name, walk_no_nested, str_const
from .core import Inconclusive


class Unknown(Exception):
    pass


def ev(e, env):
    """Evaluate a restricted, side-effect-free expression under env (names and dotted attribute paths)."""
    if isinstance(e, ast.Constant):
        return e.value
    if isinstance(e, ast.Name):
        if e.id in env:
            return env[e.id]
        if e.id in ("True", "False", "None"):
            return {"True": True, "False": False, "None": None}[e.id]
        raise Unknown(e.id)
    if isinstance(e, ast.Attribute):
        d = dotted(e)
        if d in env:
            return env[d]
        raise Unknown(d or ast.unparse(e))
    if isinstance(e, ast.UnaryOp) and isinstance(e.op, ast.Not):
        return not ev(e.operand, env)
    if isinstance(e, ast.BoolOp):
        if isinstance(e.op, ast.And):
            v = True
            for x in e.values:
                v = ev(x, env)
                if not v:
                    return v
            return v
        v = False
        for x in e.values:
            v = ev(x, env)
            if v:
                return v
        return v
    if isinstance(e, ast.Compare):
        left = ev(e.left, env)
        for op, c in zip(e.ops, e.comparators):
            right = ev(c, env)
            if isinstance(op, ast.Eq):
                r = left == right
            elif isinstance(op, ast.NotEq):
                r = left != right
            elif isinstance(op, ast.Is):
                r = left is right
            elif isinstance(op, ast.IsNot):
                r = left is not right
            elif isinstance(op, ast.In):
                r = left in right
            elif isinstance(op, ast.NotIn):
                r = left not in right
            elif isinstance(op, ast.Lt):
                r = left < right
            elif isinstance(op, ast.LtE):
                r = left <= right
            elif isinstance(op, ast.Gt):
                r = left > right
            elif isinstance(op, ast.GtE):
                r = left >= right
            else:
                raise Unknown(ast.unparse(e))
            if not r:
                return False
            left = right
        return True
    if isinstance(e, ast.IfExp):
        return ev(e.body, env) if ev(e.test, env) else ev(e.orelse, env)
    if isinstance(e, (ast.Tuple, ast.List)):
        return tuple(ev(x, env) for x in e.elts)
    if isinstance(e, ast.Dict):
        return {ev(k, env): ev(v, env) for k, v in zip(e.keys, e.values)}
    if isinstance(e, ast.Subscript) and not isinstance(e.slice, ast.Slice):
        # a table lookup (`strategies[args.dict_strategy]`) over an evaluated dict / tuple
        base, key = ev(e.value, env), ev(e.slice, env)
        try:
            return base[key]
        except (KeyError, IndexError, TypeError):
            raise Unknown(ast.unparse(e))
    if isinstance(e, ast.Call) and isinstance(e.func, ast.Attribute) and e.func.attr == "get" and 1 <= len(e.args) <= 2 and not e.keywords:
        base = ev(e.func.value, env)
        if isinstance(base, dict):
            return base.get(ev(e.args[0], env), ev(e.args[1], env) if len(e.args) == 2 else None)
        raise Unknown(ast.unparse(e))
    if isinstance(e, ast.Call) and call_name(e) == "len" and len(e.args) == 1:
        d = "len(" + (dotted(e.args[0]) or ast.unparse(e.args[0])) + ")"
        if d in env:
            return env[d]
        raise Unknown(d)
    if isinstance(e, ast.Call) and isinstance(e.func, ast.Attribute) and isinstance(e.func.value, ast.Name) \
            and e.func.value.id == "self" and e.func.attr in env.get("__methods__", {}):
        fn = env["__methods__"][e.func.attr]
        if env.get("__depth__", 0) > 4:
            raise Unknown("helper recursion too deep")
        params = [a.arg for a in fn.args.args][1:]
        local = dict(env)
        local["__depth__"] = env.get("__depth__", 0) + 1
        for pn, a in zip(params, e.args):
            # pass-through of names: alias the callee's parameter to the caller's dotted paths
            src = dotted(a)
            if src:
                for k, v in list(env.items()):
                    if k == src or k.startswith(src + ".") or k.startswith(f"len({src}") :
                        local[k.replace(src, pn, 1)] = v
            else:
                local[pn] = ev(a, env)
        r = eval_body(fn.body, local)
        if r is None:
            raise Unknown(f"helper {e.func.attr} falls off")
        return r[1]
    if isinstance(e, ast.Call) and call_name(e) == "isinstance":
        d = ast.unparse(e)
        if d in env:
            return env[d]
        raise Unknown(d)
    if isinstance(e, ast.Call) and isinstance(e.func, ast.Name) and e.func.id in env.get("__funcs__", {}) and not e.keywords:
        # a module-level helper of pure option logic (`_key_matching(args)`): evaluated with its parameters aliased to the
        # caller's names
        fn = env["__funcs__"][e.func.id]
        if env.get("__depth__", 0) > 4:
            raise Unknown("helper recursion too deep")
        params = [a.arg for a in fn.args.args]
        local = dict(env)
        local["__depth__"] = env.get("__depth__", 0) + 1
        for pn, a in zip(params, e.args):
            src = dotted(a)
            if src:
                for k, v in list(env.items()):
                    if k == src or k.startswith(src + "."):
                        local[k.replace(src, pn, 1)] = v
            else:
                local[pn] = ev(a, env)
        r = eval_body(fn.body, local)
        if r is None:
            raise Unknown(f"helper {e.func.id} falls off")
        return r[1]
    raise Unknown(ast.unparse(e))


def eval_body(stmts, env):
    """Evaluate a pure function body (assignments, ifs, returns): ('return', value) or None if it falls through."""
    for s in stmts:
        if isinstance(s, ast.Return):
            return ("return", ev(s.value, env) if s.value is not None else None)
        if isinstance(s, ast.If):
            r = eval_body(s.body if ev(s.test, env) else s.orelse, env)
            if r is not None:
                return r
        elif isinstance(s, (ast.Assign, ast.AnnAssign)):
            run_stmts([s], env)
        elif isinstance(s, ast.Expr) and isinstance(s.value, ast.Constant):
            continue    # docstring
        elif isinstance(s, ast.Pass):
            continue
        else:
            raise Unknown(type(s).__name__)
    return None


def run_stmts(stmts, env):
    """Execute a restricted statement list (assignments and ifs) under env; returns the updated env."""
    for s in stmts:
        if isinstance(s, ast.Assign):
            v = ev(s.value, env)
            for t in s.targets:
                if isinstance(t, ast.Name):
                    env[t.id] = v
                elif isinstance(t, (ast.Tuple, ast.List)):
                    for tt, vv in zip(t.elts, v):
                        env[tt.id] = vv
                else:
                    raise Unknown(ast.unparse(t))
        elif isinstance(s, ast.AnnAssign) and s.value is not None and isinstance(s.target, ast.Name):
            env[s.target.id] = ev(s.value, env)
        elif isinstance(s, ast.If):
            run_stmts(s.body if ev(s.test, env) else s.orelse, env)
        elif isinstance(s, (ast.Pass, ast.Expr)):
            continue
        else:
            raise Unknown(type(s).__name__)
    return env


class ArgSpec:
    def __init__(self, flags, dest, action, const, default, choices, group, node, template=False):
        self.flags, self.dest, self.action, self.const = flags, dest, action, const
        self.default, self.choices, self.group, self.node, self.template = default, choices, group, node, template

    def __repr__(self):
        return f"<arg {self.flags} dest={self.dest} action={self.action}>"


def flag_text(e):
    """(text, is_template) of a flag expression: constant or f-string with a placeholder rendered as {}."""
    s = str_const(e)
    if s is not None:
        return s, False
    if isinstance(e, ast.JoinedStr):
        out = ""
        for v in e.values:
            out += v.value if isinstance(v, ast.Constant) else "{}"
        return out, True
    return None, False


ARGS = "args"      # name of the parsed-arguments variable in main (discovered by parse_cli)


def args_name(fn):
    for n in walk_no_nested(fn):
        if isinstance(n, ast.Assign) and isinstance(n.targets[0], ast.Name) and isinstance(n.value, ast.Call) \
                and isinstance(n.value.func, ast.Attribute) and n.value.func.attr == "parse_args":
            return n.targets[0].id
    return "args"


def parse_cli(model):
    """Read main()'s argparse spec: {dest: ArgSpec}, mutually-exclusive groups {group var: [dest]}."""
    global ARGS
    f = model.func("graphtage.__main__.main")
    ARGS = args_name(f.node)
    specs, groups, group_parent = {}, {}, {}
    for n in walk_no_nested(f.node):
        if isinstance(n, ast.Assign) and isinstance(n.value, ast.Call) and isinstance(n.value.func, ast.Attribute) \
                and n.value.func.attr in ("add_mutually_exclusive_group", "add_argument_group") \
                and isinstance(n.targets[0], ast.Name):
            group_parent[n.targets[0].id] = (n.value.func.attr, dotted(n.value.func.value))
            if n.value.func.attr == "add_mutually_exclusive_group":
                groups[n.targets[0].id] = []
    for n in walk_no_nested(f.node):
        if isinstance(n, ast.Call) and isinstance(n.func, ast.Attribute) and n.func.attr == "add_argument":
            flags, template = [], False
            for a in n.args:
                t, tmpl = flag_text(a)
                if t is None:
                    raise Inconclusive(f"add_argument flag not constant: {ast.unparse(a)}")
                flags.append(t)
                template |= tmpl
            kw = {k.arg: k.value for k in n.keywords}
            longs = [x for x in flags if x.startswith("--")]
            if "dest" in kw:
                dest = str_const(kw["dest"])
            elif longs:
                dest = longs[0][2:].replace("-", "_")
            elif flags and not flags[0].startswith("-"):
                dest = flags[0]
            else:
                dest = flags[0].lstrip("-").replace("-", "_")
            action = str_const(kw["action"]) if "action" in kw else "store"
            default = kw.get("default")
            if default is not None:
                try:
                    default_v = ast.literal_eval(default)
                except Exception:
                    default_v = ("expr", default)
            else:
                default_v = False if action == "store_true" else (True if action == "store_false" else None)
            grp = dotted(n.func.value)
            specs[dest] = ArgSpec(flags, dest, action, kw.get("const"), default_v, kw.get("choices"), grp, n, template)
            if grp in groups:
                groups[grp].append(dest)
    # parser.set_defaults(dest=value, ...) overrides the defaults of the options it names
    for n in walk_no_nested(f.node):
        if isinstance(n, ast.Call) and isinstance(n.func, ast.Attribute) and n.func.attr == "set_defaults":
            for k in n.keywords:
                if k.arg in specs:
                    try:
                        specs[k.arg].default = ast.literal_eval(k.value)
                    except Exception:
                        specs[k.arg].default = ("expr", k.value)
    return f, specs, groups


def default_env(specs):
    env = {}
    for d, s in specs.items():
        if s.template:
            continue
        env[f"{ARGS}.{d}"] = s.default if not (isinstance(s.default, tuple) and s.default and s.default[0] == "expr") else None
    return env


def slice_for(fn, exprs, roots=None):
    """Top-level statements of fn (in order) that define the names the expressions depend on, transitively.
    `roots` are names provided by the environment (the parsed-arguments object)."""
    roots = roots or (ARGS,)
    need = set()
    for e in exprs:
        need |= {x.id for x in ast.walk(e) if isinstance(x, ast.Name)}
    need -= set(roots)
    chosen = []
    changed = True
    body = fn.body
    while changed:
        changed = False
        for s in body:
            if s in chosen:
                continue
            tg = {x.id for x in ast.walk(s) if isinstance(x, ast.Name) and isinstance(x.ctx, ast.Store)}
            if tg & need and isinstance(s, (ast.Assign, ast.AnnAssign, ast.If)):
                chosen.append(s)
                need |= {x.id for x in ast.walk(s) if isinstance(x, ast.Name) and isinstance(x.ctx, ast.Load)}
                need -= set(roots)
                changed = True
    return [s for s in body if s in chosen]


def build_options_call(fn):
    for n in walk_no_nested(fn):
        if isinstance(n, ast.Call) and (call_name(n) or "").endswith("BuildOptions"):
            return n
    return None


def eval_build_options(fn, specs, overrides):
    """Evaluate the keyword arguments of the BuildOptions(...) call in main under the given flag settings."""
    call = build_options_call(fn)
    if call is None:
        raise Inconclusive("main does not construct BuildOptions")
    env = default_env(specs)
    env.update({f"{ARGS}.{k}": v for k, v in overrides.items()})
    # module-level constants of main's module (a dispatch table `_DICT_STRATEGIES = {...}`), as far as they are literals
    mod = fn
    while getattr(mod, "_parent", None) is not None:
        mod = mod._parent
    env["__funcs__"] = {s_.name: s_ for s_ in getattr(mod, "body", []) if isinstance(s_, ast.FunctionDef) and s_ is not fn}
    for s_ in getattr(mod, "body", []):
        tg_ = s_.targets[0] if isinstance(s_, ast.Assign) and len(s_.targets) == 1 else (s_.target if isinstance(s_, ast.AnnAssign) and s_.value is not None else None)
        if isinstance(tg_, ast.Name) and tg_.id not in env:
            try:
                env[tg_.id] = ev(s_.value, env)
            except Exception:     # noqa - not a literal: stays unknown
                pass
    kws = {k.arg: k.value for k in call.keywords if k.arg}
    stmts = slice_for(fn, list(kws.values()))
    try:
        run_stmts(stmts, env)
        return {k: ev(v, env) for k, v in kws.items()}
    except Unknown as u:
        raise Inconclusive(f"option logic in main is not a pure flag expression (cannot evaluate {u})")
