#!/venv/bin/python
"""Run every claimed quick check against every kept seeded change (on scratch copies, /repo is not touched), update each
seed's meta.json (`caught_by`, `inconclusive_in`, `rules`) and write /verif/seeded/MATRIX.md."""
import concurrent.futures as cf
import json
import os
import shutil
import subprocess
import sys
import tempfile

V = os.path.dirname(os.path.dirname(os.path.abspath(__file__)))
sys.path.insert(0, V)


def one(sid):
    from gtstatic import core
    from gtstatic.__main__ import run_rules
    props = [c["property_id"] for c in json.load(open(os.path.join(V, "MANIFEST.json")))["checks"]]
    d = tempfile.mkdtemp(prefix=f"seed_{sid}_")
    try:
        shutil.copytree("/repo/graphtage", os.path.join(d, "graphtage"), ignore=shutil.ignore_patterns("__pycache__"))
        r = subprocess.run(["git", "apply", "--whitespace=nowarn", "-p1", os.path.join(V, "seeded", sid, "patch.diff")],
                           cwd=d, capture_output=True, text=True)
        if r.returncode:
            return sid, None, None, {"error": "patch does not apply to current /repo"}
        caught, inconcl, rules = [], [], {}
        for p in props:
            try:
                ctx = run_rules(p, d, "quick", quiet=True)
            except Exception as e:
                inconcl.append(p)
                rules[p] = [f"crash {type(e).__name__}"]
                continue
            core.apply_known(ctx, core.load_known())
            v = sorted({i.rule for i in ctx.instances if i.verdict == core.VIOLATION})
            inc = [i for i in ctx.instances if i.verdict == core.INCONCLUSIVE] or [f for f in ctx.floors if f[1] < f[2]]
            if v:
                caught.append(p)
                rules[p] = v
            elif inc:
                inconcl.append(p)
        return sid, caught, inconcl, rules
    finally:
        shutil.rmtree(d, ignore_errors=True)


def main():
    sd = os.path.join(V, "seeded")
    sids = sorted(x for x in os.listdir(sd) if os.path.exists(os.path.join(sd, x, "patch.diff")))
    only = [a for a in sys.argv[1:] if not a.startswith("-")]
    run = [x for x in sids if not only or any(x == o or x.startswith(o) for o in only)]      # a subset: the other rows are re-read
    with cf.ProcessPoolExecutor(max_workers=16) as ex:
        fresh = dict((r[0], r) for r in ex.map(one, run))
    res = []
    for x in sids:
        if x in fresh:
            res.append(fresh[x])
        else:
            mt = json.load(open(os.path.join(sd, x, "meta.json")))
            res.append((x, mt.get("caught_by", []), mt.get("inconclusive_in", []), mt.get("rules", {})))
    lines = ["# Seeded changes versus checks", "",
             "Each row: a change produced by an independent sub-agent (given only the property text), confirmed by hand-off "
             "verification (demo fails with it / passes without, 66 tests pass), then run against every claimed quick check on a "
             "scratch copy.  `caught by` = checks that exit 1 with a VIOLATION naming the construct; `inconclusive` = checks that "
             "exit 2 (analysis does not recognise the changed shape - not counted as a detection).", "",
             "| seed | target | confirmed | caught by (rules) | inconclusive in | own property caught |", "|---|---|---|---|---|---|"]
    for sid, caught, inconcl, rules in res:
        mp = os.path.join(sd, sid, "meta.json")
        meta = json.load(open(mp)) if os.path.exists(mp) else {"id": sid, "property": sid.split("-")[0]}
        if caught is None:
            meta["matrix_error"] = rules["error"]
            lines.append(f"| {sid} | {meta.get('property')} | {meta.get('confirmed')} | (patch no longer applies) | | |")
        else:
            meta["caught_by"] = caught
            meta["inconclusive_in"] = inconcl
            meta["rules"] = rules
            own = meta.get("property") in caught
            cb = "; ".join(f"{p} ({', '.join(rules[p])})" for p in caught) or "-"
            lines.append(f"| {sid} | {meta.get('property')} | {meta.get('confirmed')} | {cb} | {', '.join(inconcl) or '-'} | {'yes' if own else 'NO'} |")
        json.dump(meta, open(mp, "w"), indent=1)
    open(os.path.join(sd, "MATRIX.md"), "w").write("\n".join(lines) + "\n")
    print("\n".join(lines[6:]))


if __name__ == "__main__":
    main()
