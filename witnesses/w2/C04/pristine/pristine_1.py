"""PRISTINE code: IterativeTighteningSearch with explicit (correct) initial_bounds exposes an interval that widens."""
import sys
import graphtage
from graphtage.bounds import Bounded, Range
from graphtage.search import IterativeTighteningSearch

assert graphtage.__file__.startswith('/tmp/wt7/C04'), graphtage.__file__


class Scripted(Bounded):
    """A bounded object that follows a fixed, monotonically shrinking script of intervals."""
    def __init__(self, *script):
        self.script = [Range(lb, ub) for lb, ub in script]
        self.i = 0

    def bounds(self) -> Range:
        return self.script[self.i]

    def tighten_bounds(self) -> bool:
        if self.i + 1 < len(self.script):
            self.i += 1
            return True
        return False

    def __repr__(self):
        return f"Scripted({' -> '.join(map(str, self.script))})"


candidates = [                                             # the optimum is 10
    Scripted((5, 100), (6, 50), (7, 30), (8, 20), (9, 15), (10, 10)),
    Scripted((6, 90), (9, 60), (12, 40), (20, 30), (25, 25)),
]
initial = Range(0, 12)                                     # correct: the optimum 10 lies inside [0, 12]
print("candidates:", candidates)
print("initial_bounds:", initial)

search = IterativeTighteningSearch(iter(candidates), initial_bounds=initial)
seq = [search.bounds()]
problems = []
for step in range(1, 50):
    before = search.bounds()
    progressed = search.tighten_bounds()
    after = search.bounds()
    seq.append(after)
    print(f"step {step}: tighten_bounds() -> {progressed}; bounds {before} -> {after}")
    if after.lower_bound < before.lower_bound or after.upper_bound > before.upper_bound:
        problems.append(f"step {step}: interval widened from {before} to {after}")
    if progressed and not (after.lower_bound > before.lower_bound or after.upper_bound < before.upper_bound):
        problems.append(f"step {step}: reported progress without shrinking ({before} -> {after})")
    if not progressed:
        if not after.definitive():
            problems.append(f"step {step}: returned False with non-definitive bounds {after}")
        break
print("bounds sequence:", " -> ".join(map(str, seq)))
if problems:
    print("C04 VIOLATIONS ON PRISTINE CODE:")
    for p in problems:
        print("  ", p)
    sys.exit(1)
print("no violation observed")
