"""C08 witness (mixed dictionary strategies): DictNode.edits() replaces a FixedKeyDictNode wholesale.

The "from" document is built with the default strategy (DictNode), the "to" document -- the same mapping, or a
key-permuted copy of it -- with allow_key_edits=False (FixedKeyDictNode).  The other direction (FixedKeyDictNode ->
DictNode) answers Match/0, as the property demands; this direction answers Replace with the full size of the document.
"""
import sys

from graphtage import json as gjson
from graphtage.graphtage import BuildOptions, DictNode, FixedKeyDictNode
from graphtage.edits import Replace
from graphtage.printer import DEFAULT_PRINTER

DEFAULT_PRINTER.quiet = True


def cost(t1, t2):
    edit = t1.edits(t2)
    while edit.tighten_bounds():
        pass
    b = edit.bounds()
    assert b.definitive(), b
    return b.upper_bound, edit


doc = {"a": 1, "b": [1, 2]}
permuted = {"b": [1, 2], "a": 1}

auto = BuildOptions()                       # -> DictNode
none = BuildOptions(allow_key_edits=False)  # -> FixedKeyDictNode

failures = []
for to_obj in (doc, permuted):
    d = gjson.build_tree(doc, auto)
    f = gjson.build_tree(to_obj, none)
    assert isinstance(d, DictNode) and isinstance(f, FixedKeyDictNode)
    c_fd, _ = cost(f, d)
    c_df, e_df = cost(d, f)
    if c_fd != 0:
        failures.append(f"FixedKeyDictNode -> DictNode of {to_obj!r} -> {doc!r}: cost {c_fd}, expected 0")
    if c_df != 0:
        failures.append(f"DictNode -> FixedKeyDictNode of {doc!r} -> {to_obj!r}: cost {c_df} "
                        f"({type(e_df).__name__}), expected 0 (the opposite direction costs {c_fd})")

# and a real difference is not analysed either: one changed value costs as much as replacing the whole mapping
d = gjson.build_tree({"a": 1, "b": [1, 2]}, auto)
f = gjson.build_tree({"a": 2, "b": [1, 2]}, none)
c_df, e_df = cost(d, f)
c_fd, _ = cost(gjson.build_tree({"a": 1, "b": [1, 2]}, none), gjson.build_tree({"a": 2, "b": [1, 2]}, auto))
if isinstance(e_df, Replace) and c_df != c_fd:
    failures.append(f"one changed value: DictNode -> FixedKeyDictNode costs {c_df} (Replace), "
                    f"FixedKeyDictNode -> DictNode costs {c_fd}")

if failures:
    print("C08 VIOLATION: a mapping and its (permuted) copy do not compare as equal across dictionary strategies")
    for x in failures:
        print("  " + x)
    sys.exit(1)
print("ok")
sys.exit(0)
