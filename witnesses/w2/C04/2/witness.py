"""C04 witness: a bytes value in a fixed-key dictionary (graphtage.pydiff, allow_key_edits=False).

{'data': b''} -> {'data': b'hello world, hello graphtage'}
The FixedKeyDictNodeEdit starts at a finite interval, widens to (-inf, +inf) on the first refinement step and then
answers tighten_bounds() == False although the interval is not a single value.
"""
import logging
import signal
import sys

logging.disable(logging.CRITICAL)

from graphtage import BuildOptions
from graphtage.pydiff import build_tree
from graphtage.printer import DEFAULT_PRINTER

DEFAULT_PRINTER.quiet = True

opts = BuildOptions(allow_key_edits=False)
tree_a = build_tree({'data': b''}, opts)
tree_b = build_tree({'data': b'hello world, hello graphtage'}, opts)


def on_alarm(signum, frame):
    raise TimeoutError()


signal.signal(signal.SIGALRM, on_alarm)
problems = []

# the cost the engine itself settles on for the only value of the dictionary
value_edit = list(tree_a)[0].value.edits(list(tree_b)[0].value)
while value_edit.tighten_bounds():
    pass
print(f"final cost of the value edit ({type(value_edit).__name__}): {value_edit.bounds()}")

edit = tree_a.edits(tree_b)
initial = edit.bounds()
print(f"{type(edit).__name__}: initial bounds {initial}")
final_value_cost = value_edit.bounds().upper_bound
if not (initial.lower_bound <= final_value_cost <= initial.upper_bound):
    problems.append(f"the initial interval {initial} of the dictionary edit does not contain the cost "
                    f"{final_value_cost} of its only entry")
signal.alarm(20)
try:
    for step in range(1, 200):
        before = edit.bounds()
        progressed = edit.tighten_bounds()
        after = edit.bounds()
        print(f"  step {step}: tighten_bounds() -> {progressed}, bounds {before} -> {after}")
        if after.lower_bound < before.lower_bound or after.upper_bound > before.upper_bound:
            problems.append(f"step {step}: the interval widened from {before} to {after}")
        if progressed and after == before:
            problems.append(f"step {step}: progress reported but the interval is unchanged ({after})")
        if not progressed:
            if not after.definitive():
                problems.append(f"step {step}: no progress reported on the non-definitive interval {after}")
            break
except TimeoutError:
    problems.append("tightening did not finish within 20 seconds")
finally:
    signal.alarm(0)

if problems:
    print("C04 VIOLATED:")
    for p in problems:
        print("  - " + p)
    sys.exit(1)
print("ok")
sys.exit(0)
