"""C18 witness: a dict whose keys are two distinct custom objects with the same class name and attribute values
loses one of its entries during conversion (silently), under both dictionary strategies."""
import sys

from graphtage import BuildOptions
from graphtage import pydiff


class Point:
    def __init__(self, x):
        self.x = x          # default identity hash/eq: two Points are always two different dict keys


bad = []
for allow_key_edits in (True, False):
    original = {Point(1): "first", Point(1): "second"}
    assert len(original) == 2
    try:
        tree = pydiff.build_tree(original, BuildOptions(allow_key_edits=allow_key_edits))
    except Exception as e:
        # a loud refusal is a different matter (e.g. PyObj keys cannot be sorted); this witness is about silent loss
        print(f"allow_key_edits={allow_key_edits}: build raised {type(e).__name__}: {e}")
        continue
    pairs = list(tree.children())
    values = sorted(kvp.value.object for kvp in pairs)
    print(f"allow_key_edits={allow_key_edits}: {type(tree).__name__} with {len(pairs)} key/value pair(s), "
          f"values {values}")
    if len(pairs) != 2 or values != ["first", "second"]:
        bad.append(f"allow_key_edits={allow_key_edits}: the dict had 2 items, the tree has {len(pairs)}: {values}")

# the same two objects in a set are kept (as a multiset with multiplicity 2), so it is the dict path that is lossy
as_set = pydiff.build_tree({Point(1), Point(1)})
print(f"for comparison, a set of the two objects -> {len(as_set)} element(s)")

if bad:
    print("\n".join(bad))
    sys.exit(1)
sys.exit(0)
