"""C02 witness: equal data, FROM = JSON (or YAML), TO = plist: graphtage reports the whole document as replaced and exits 1.
The reverse direction (FROM = plist, TO = JSON) correctly reports no difference and exits 0."""
import json, os, plistlib, subprocess, sys, tempfile

from graphtage import BuildOptions
from graphtage.json import JSON
from graphtage.plist import PLIST

obj = {"a": [1, "x", True], "b": {"c": 2.5}}
problems = []
with tempfile.TemporaryDirectory() as d:
    pj, pp = os.path.join(d, 'a.json'), os.path.join(d, 'b.plist')
    open(pj, 'w').write(json.dumps(obj))
    open(pp, 'wb').write(plistlib.dumps(obj))

    def cli(*args):
        p = subprocess.run([sys.executable, '-m', 'graphtage', '--no-status', '--no-color', *args],
                           capture_output=True, text=True)
        return p.returncode, p.stdout

    for extra in ((), ('-e',), ('-k',)):
        rc_pj, _ = cli(*extra, pp, pj)
        rc_jp, out = cli(*extra, pj, pp)
        print(f"CLI {extra}: plist->json exits {rc_pj}; json->plist exits {rc_jp}")
        if rc_pj != 0:
            problems.append(f"CLI {extra}: plist -> json of equal data exits {rc_pj}")
        if rc_jp != 0:
            problems.append(f"CLI {extra}: json -> plist of equal data exits {rc_jp}; output starts {out[:70]!r}")

    # library entry point
    o = BuildOptions()
    tj = JSON.default_instance.build_tree(pj, o)
    tp = PLIST.default_instance.build_tree(pp, o)
    for name, a, b in (("plist.edits(json)", tp, tj), ("json.edits(plist)", tj, tp)):
        e = a.edits(b)
        while e.tighten_bounds():
            pass
        print(f"library: {name}: {type(e).__name__} cost {e.bounds().upper_bound}")
        if e.bounds().upper_bound != 0:
            problems.append(f"library: {name} on equal data costs {e.bounds().upper_bound} ({type(e).__name__})")
if problems:
    print("VIOLATION: equal documents reported as different when the plist is the TO side:")
    for p in problems:
        print("  -", p)
    sys.exit(1)
print("ok")
sys.exit(0)
