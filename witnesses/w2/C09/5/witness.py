"""C09 witness 5: a string containing U+2028 (LINE SEPARATOR), stored unescaped the way json.dumps(..., ensure_ascii=False)
stores it.  That text is valid JSON and valid JSON5 (the JSON5 spec explicitly allows U+2028/U+2029 unescaped in strings);
JSON, YAML and plist load the data, the JSON5 loader reports a parse error, so json-vs-json5 of identical data exits 1."""
import contextlib
import io
import json
import os
import plistlib
import sys
import tempfile

import yaml

from graphtage import json as gjson, yaml as gyaml, plist as gplist
from graphtage.graphtage import BuildOptions
from graphtage.__main__ import main
import graphtage.printer

try:  # cosmetic only
    graphtage.printer.DEFAULT_PRINTER.quiet = True
except Exception:  # noqa
    pass

DATA = {"text": "first second", "para": "x y"}


def cost(a, b):
    e = a.edits(b)
    while e.tighten_bounds():
        pass
    return e.bounds().upper_bound


def run_cli(a, b):
    out, err = io.StringIO(), io.StringIO()
    try:
        with contextlib.redirect_stdout(out), contextlib.redirect_stderr(err):
            rc = main(["graphtage", "--no-status", "--no-color", a, b])
    except SystemExit as e:
        rc = e.code
    except Exception as e:  # noqa
        rc = f"raised {type(e).__name__}"
    return rc, (err.getvalue().strip().splitlines() or [""])[-1]


def main_():
    d = tempfile.mkdtemp(prefix="c09w5_")
    text = json.dumps(DATA, ensure_ascii=False).encode("utf-8")
    assert " ".encode("utf-8") in text
    paths = {}
    for ext, blob in (("json", text), ("json5", text), ("yaml", yaml.dump(DATA, allow_unicode=True).encode("utf-8")),
                      ("plist", plistlib.dumps(DATA))):
        paths[ext] = os.path.join(d, "doc." + ext)
        with open(paths[ext], "wb") as f:
            f.write(blob)
    opts = BuildOptions()
    loaded = {
        "json": gjson.JSON.default_instance.build_tree_handling_errors(paths["json"], opts),
        "json5": gjson.JSON5.default_instance.build_tree_handling_errors(paths["json5"], opts),
        "yaml": gyaml.YAML.default_instance.build_tree_handling_errors(paths["yaml"], opts),
        "plist": gplist.PLIST.default_instance.build_tree_handling_errors(paths["plist"], opts),
    }
    for k in ("json", "yaml", "plist"):
        if isinstance(loaded[k], str):
            print(f"unexpected: the {k} loader failed too: {loaded[k]}")
            return 0
    loaded["plist"] = loaded["plist"].root  # look through the known wrapper
    for k in ("yaml", "plist"):
        if not (loaded["json"] == loaded[k]) or cost(loaded["json"], loaded[k]):
            print(f"unexpected: json and {k} disagree")
            return 0
    problems = []
    if isinstance(loaded["json5"], str):
        problems.append(f"JSON5 loader: {loaded['json5']!r} (the same bytes load as JSON; YAML/plist copies load too)")
    elif not (loaded["json5"] == loaded["json"]) or cost(loaded["json5"], loaded["json"]) or cost(loaded["json"], loaded["json5"]):
        problems.append(f"json5 tree differs: {loaded['json5'].to_obj()!r}")
    for a, b in (("json", "json5"), ("json5", "json"), ("yaml", "json5")):
        rc, last = run_cli(paths[a], paths[b])
        if rc != 0:
            problems.append(f"graphtage doc.{a} doc.{b} -> exit status {rc!r}: {last[:100]!r}")
    if problems:
        print("VIOLATION: data with an unescaped U+2028/U+2029 is not loadable from JSON5 while it is from the other formats")
        for p in problems:
            print("  " + p)
        return 1
    print("ok")
    return 0


if __name__ == "__main__":
    sys.exit(main_())
