"""Small AST utilities shared by the rules: dominating conditions, path termination, name/attr helpers."""
import ast


def self_attr(e, selfname="self"):
    if isinstance(e, ast.Attribute) and isinstance(e.value, ast.Name) and e.value.id == selfname:
        return e.attr
    return None


def dotted(e):
    """'a.b.c' for Name/Attribute chains, else None."""
    parts = []
    while isinstance(e, ast.Attribute):
        parts.append(e.attr)
        e = e.value
    if isinstance(e, ast.Name):
        parts.append(e.id)
        return ".".join(reversed(parts))
    return None


def call_name(c):
    """dotted callee of a Call (or None)."""
    if isinstance(c, ast.Call):
        return dotted(c.func)
    return None


def walk_no_nested(node, include_lambda=True):
    """ast.walk that does not descend into nested function/class definitions."""
    stack = [node]
    first = True
    while stack:
        n = stack.pop()
        if not first and isinstance(n, (ast.FunctionDef, ast.AsyncFunctionDef, ast.ClassDef)):
            continue
        if not first and not include_lambda and isinstance(n, ast.Lambda):
            continue
        first = False
        yield n
        stack.extend(ast.iter_child_nodes(n))


def parent(n):
    return getattr(n, "_parent", None)


def ancestors(n):
    p = parent(n)
    while p is not None:
        yield p
        p = parent(p)


def enclosing_stmt(n):
    while n is not None and not isinstance(n, ast.stmt):
        n = parent(n)
    return n


def block_of(stmt):
    """(list, index) of the statement list that directly contains stmt."""
    p = parent(stmt)
    if p is None:
        return None, None
    for field in ("body", "orelse", "finalbody", "handlers"):
        lst = getattr(p, field, None)
        if isinstance(lst, list) and stmt in lst:
            return lst, lst.index(stmt)
    return None, None


def terminates(stmts):
    """True if the statement list cannot fall through (ends in return/raise/continue/break on all paths)."""
    for s in stmts:
        if isinstance(s, (ast.Return, ast.Raise, ast.Continue, ast.Break)):
            return True
        if isinstance(s, ast.If) and s.orelse and terminates(s.body) and terminates(s.orelse):
            return True
        if isinstance(s, ast.Expr) and isinstance(s.value, ast.Call) and call_name(s.value) in ("exit", "sys.exit"):
            return True
        if isinstance(s, (ast.With,)) and terminates(s.body):
            return True
        if isinstance(s, ast.Try) and s.handlers and terminates(s.body) and all(terminates(h.body) for h in s.handlers):
            return True
        if isinstance(s, ast.While) and isinstance(s.test, ast.Constant) and s.test.value is True \
                and not any(isinstance(x, ast.Break) for x in _loop_level(s.body)):
            return True
    return False


def _loop_level(stmts):
    """statements at this loop's level (not descending into nested loops / functions)."""
    for s in stmts:
        yield s
        for field in ("body", "orelse", "finalbody"):
            sub = getattr(s, field, None)
            if isinstance(sub, list) and not isinstance(s, (ast.For, ast.While, ast.FunctionDef, ast.ClassDef)):
                yield from _loop_level(sub)
        if isinstance(s, ast.Try):
            for h in s.handlers:
                yield from _loop_level(h.body)


def dominating_conditions(node, stop=None):
    """Conditions known to hold whenever `node` is evaluated, as [(test_expr, polarity, origin)].

    Sources: enclosing if/while branches, IfExp arms, short-circuit operands, comprehension filters, and earlier
    sibling statements of every enclosing block that are `assert T` or `if T: <cannot fall through>`.
    The caller is responsible for checking that the operands of a condition are not reassigned in between
    (see `stable_between`)."""
    out = []
    cur = node
    while cur is not None and cur is not stop:
        p = parent(cur)
        if p is None:
            break
        if isinstance(p, ast.If):
            if cur in p.body:
                out.append((p.test, True, p))
            elif cur in p.orelse:
                out.append((p.test, False, p))
        elif isinstance(p, ast.While):
            if cur in p.body:
                out.append((p.test, True, p))
        elif isinstance(p, ast.IfExp):
            if cur is p.body:
                out.append((p.test, True, p))
            elif cur is p.orelse:
                out.append((p.test, False, p))
        elif isinstance(p, ast.BoolOp):
            idx = p.values.index(cur) if cur in p.values else -1
            for v in p.values[:max(idx, 0)]:
                out.append((v, isinstance(p.op, ast.And), p))
        elif isinstance(p, ast.comprehension):
            if cur in p.ifs:
                for v in p.ifs[:p.ifs.index(cur)]:
                    out.append((v, True, p))
        elif isinstance(p, (ast.ListComp, ast.SetComp, ast.GeneratorExp, ast.DictComp)):
            if cur is getattr(p, "elt", None) or cur is getattr(p, "key", None) or cur is getattr(p, "value", None):
                for g in p.generators:
                    for v in g.ifs:
                        out.append((v, True, p))
        if isinstance(cur, ast.stmt):
            lst, idx = block_of(cur)
            if lst is not None:
                for s in lst[:idx]:
                    if isinstance(s, ast.Assert):
                        out.append((s.test, True, s))
                    elif isinstance(s, ast.If) and terminates(s.body) and not (s.orelse and terminates(s.orelse)):
                        out.append((s.test, False, s))
                        # elif chains: `if A: ret elif B: ret` -> not A and not B
                        o = s.orelse
                        while len(o) == 1 and isinstance(o[0], ast.If) and terminates(o[0].body):
                            out.append((o[0].test, False, o[0]))
                            o = o[0].orelse
                    elif isinstance(s, ast.If) and s.orelse and terminates(s.orelse) and not terminates(s.body):
                        out.append((s.test, True, s))
        if isinstance(p, (ast.FunctionDef, ast.AsyncFunctionDef, ast.Lambda)):
            # stop at the function boundary (conditions outside do not dominate calls of the function)
            break
        cur = p
    return out


def flatten_conditions(conds):
    """Split and/or/not into atomic (expr, polarity) facts that must hold."""
    out = []
    work = [(t, pol) for t, pol, _ in conds]
    while work:
        t, pol = work.pop()
        if isinstance(t, ast.UnaryOp) and isinstance(t.op, ast.Not):
            work.append((t.operand, not pol))
        elif isinstance(t, ast.BoolOp) and isinstance(t.op, ast.And) and pol:
            work.extend((v, True) for v in t.values)
        elif isinstance(t, ast.BoolOp) and isinstance(t.op, ast.Or) and not pol:
            work.extend((v, False) for v in t.values)
        else:
            out.append((t, pol))
    return out


def assigned_names(node):
    """Names / dotted attribute paths stored anywhere under node."""
    out = set()
    scoped = set()
    for n in ast.walk(node):
        if isinstance(n, (ast.ListComp, ast.SetComp, ast.DictComp, ast.GeneratorExp)):
            for g in n.generators:
                scoped |= {id(x) for x in ast.walk(g.target)}
    for n in ast.walk(node):
        if id(n) in scoped:
            continue    # comprehension targets live in their own scope
        if isinstance(n, (ast.Name, ast.Attribute)) and isinstance(getattr(n, "ctx", None), (ast.Store, ast.Del)):
            d = dotted(n)
            if d:
                out.add(d)
        elif isinstance(n, ast.AugAssign):
            d = dotted(n.target)
            if d:
                out.add(d)
    return out


def func_params(fn):
    a = fn.args
    return [x.arg for x in a.posonlyargs + a.args] + ([a.vararg.arg] if a.vararg else []) + \
        [x.arg for x in a.kwonlyargs] + ([a.kwarg.arg] if a.kwarg else [])


def returns_of(fn):
    return [n for n in walk_no_nested(fn) if isinstance(n, ast.Return)]


def can_fall_off(fn):
    return not terminates(fn.body)


def is_none(e):
    return isinstance(e, ast.Constant) and e.value is None


def decorator_names(fn):
    return [dotted(d.func if isinstance(d, ast.Call) else d) for d in fn.decorator_list]


def str_const(e):
    return e.value if isinstance(e, ast.Constant) and isinstance(e.value, str) else None


def calls_in(node, nested=False):
    it = ast.walk(node) if nested else walk_no_nested(node)
    return [n for n in it if isinstance(n, ast.Call)]


def kwarg(call, name, pos=None):
    for k in call.keywords:
        if k.arg == name:
            return k.value
    if pos is not None and len(call.args) > pos and not any(isinstance(a, ast.Starred) for a in call.args[:pos + 1]):
        return call.args[pos]
    return None


def resolve_local(fn, e, depth=3):
    """If e is a local Name with exactly one plain assignment in fn, the assigned expression (followed transitively);
    otherwise e itself.  Lets rules see through `x = <expr>; use(x)` refactors."""
    while depth > 0 and isinstance(e, ast.Name):
        defs = [a for a in walk_no_nested(fn) if isinstance(a, (ast.Assign, ast.AnnAssign)) and a.value is not None
                and any(isinstance(t, ast.Name) and t.id == e.id for t in (a.targets if isinstance(a, ast.Assign) else [a.target]))]
        others = [a for a in walk_no_nested(fn) if isinstance(a, (ast.AugAssign, ast.For, ast.With, ast.NamedExpr))
                  and any(isinstance(t, ast.Name) and t.id == e.id for t in ast.walk(
                      a.target if isinstance(a, (ast.AugAssign, ast.For, ast.NamedExpr)) else ast.Tuple(elts=[i.optional_vars for i in a.items if i.optional_vars is not None], ctx=ast.Store())))]
        # `a, b = x, y`: element-wise, when both sides are literals of the same length
        unpacked, opaque = [], 0
        for a in walk_no_nested(fn):
            if isinstance(a, ast.Assign):
                for t in a.targets:
                    if isinstance(t, (ast.Tuple, ast.List)) and any(isinstance(x, ast.Name) and x.id == e.id for x in ast.walk(t)):
                        if isinstance(a.value, (ast.Tuple, ast.List)) and len(a.value.elts) == len(t.elts) and all(isinstance(x, ast.Name) for x in t.elts):
                            unpacked += [v for x, v in zip(t.elts, a.value.elts) if x.id == e.id]
                        else:
                            opaque += 1
        if others or opaque or len(defs) + len(unpacked) != 1:
            break
        e = defs[0].value if defs else unpacked[0]
        depth -= 1
    return e


def inline_locals(fn, e, depth=3):
    """A copy of expression e in which every local Name with exactly one plain assignment in fn is replaced by the assigned
    expression (transitively, depth-limited): lets slice arithmetic see through `n = len(xs); ys = zs[n:]`."""
    import copy

    class Sub(ast.NodeTransformer):
        def __init__(self, d):
            self.d = d

        def visit_Name(self, n):
            if self.d <= 0 or not isinstance(n.ctx, ast.Load):
                return n
            r = resolve_local(fn, n, depth=1)
            if r is n:
                return n
            return Sub(self.d - 1).visit(copy.deepcopy(r))
    return Sub(depth).visit(copy.deepcopy(e))


def inline_self_call(model, cls_q, e):
    """If e is `self.h(args)` / `cls.h(args)` and h (resolved in cls_q's MRO) consists of a single `return <expr>` (after an
    optional docstring), a copy of that expression with h's parameters replaced by the arguments; otherwise e itself."""
    import copy
    if not (isinstance(e, ast.Call) and isinstance(e.func, ast.Attribute) and isinstance(e.func.value, ast.Name)
            and e.func.value.id in ("self", "cls") and not e.keywords):
        return e
    h = model.method(cls_q, e.func.attr)
    if h is None:
        return e
    body = [s_ for s_ in h.node.body if not (isinstance(s_, ast.Expr) and isinstance(s_.value, ast.Constant))]
    if len(body) != 1 or not isinstance(body[0], ast.Return) or body[0].value is None:
        return e
    ps = [p for p in func_params(h.node) if p not in ("self", "cls")]
    if len(ps) != len(e.args):
        return e
    env = dict(zip(ps, e.args))

    class Sub(ast.NodeTransformer):
        def visit_Name(self, n):
            return copy.deepcopy(env[n.id]) if n.id in env else n
    return Sub().visit(copy.deepcopy(body[0].value))


def class_helpers(model, cls_q, f, depth=3):
    """f plus the same-class methods it reaches through `self.<name>(...)` calls (transitively, depth-limited)."""
    seen, out, todo = {f.qual}, [f], [(f, 0)]
    while todo:
        g, d = todo.pop()
        if d >= depth:
            continue
        for c in walk_no_nested(g.node):
            if isinstance(c, ast.Call) and isinstance(c.func, ast.Attribute) and isinstance(c.func.value, ast.Name) and c.func.value.id == "self":
                h = model.method(cls_q, c.func.attr)
                if h is not None and h.qual not in seen and h.cls == g.cls:
                    seen.add(h.qual)
                    out.append(h)
                    todo.append((h, d + 1))
    return out


def clone(node, env=None):
    """Structural copy of an AST (positions kept, no `_parent` links); Names in `env` are replaced by clones of env[name]."""
    if isinstance(node, list):
        return [clone(x, env) for x in node]
    if not isinstance(node, ast.AST):
        return node
    if env and isinstance(node, ast.Name) and node.id in env:
        return clone(env[node.id])
    new = type(node)(**{f: clone(getattr(node, f, None), env) for f in node._fields})
    for a in ("lineno", "col_offset", "end_lineno", "end_col_offset"):
        if hasattr(node, a):
            setattr(new, a, getattr(node, a))
    return new


def _set_parents(tree):
    for n in ast.walk(tree):
        for c in ast.iter_child_nodes(n):
            c._parent = n
    return tree


def inline_stmt_calls(model, cls_q, fn, depth=2, keep=()):
    """A copy of function node `fn` in which every statement `self.h(args)` (h a method of the same class that returns
    nothing, positional arguments only) is replaced by h's body with the parameters substituted.  For pattern matching
    only: a bare `return` of the helper is kept as it is.  Methods named in `keep` stay calls."""
    def expand(stmts, d):
        out = []
        for s_ in stmts:
            c = s_.value if isinstance(s_, ast.Expr) else None
            if d < depth and isinstance(c, ast.Call) and isinstance(c.func, ast.Attribute) and isinstance(c.func.value, ast.Name) \
                    and c.func.value.id == "self" and not c.keywords:
                h = model.method(cls_q, c.func.attr)
                if h is not None and h.node is not fn and c.func.attr not in keep and not any(isinstance(r, ast.Return) and r.value is not None for r in walk_no_nested(h.node)) \
                        and not any(isinstance(y, (ast.Yield, ast.YieldFrom)) for y in walk_no_nested(h.node)):
                    ps = [p for p in func_params(h.node) if p != "self"]
                    if len(ps) == len(c.args):
                        body = [b for b in h.node.body if not (isinstance(b, ast.Expr) and isinstance(b.value, ast.Constant))]
                        out.extend(expand(clone(body, dict(zip(ps, c.args))), d + 1))
                        continue
            new = clone(s_) if d == 0 else s_
            for fld in ("body", "orelse", "finalbody"):
                if isinstance(getattr(new, fld, None), list) and not isinstance(new, (ast.FunctionDef, ast.ClassDef)):
                    setattr(new, fld, expand(getattr(new, fld), d))
            for hd in getattr(new, "handlers", []) or []:
                hd.body = expand(hd.body, d)
            out.append(new)
        return out
    new = clone(fn)
    new.body = expand(fn.body, 0)
    return _set_parents(new)


def inline_closure_call(fn, e):
    """If e is `name(args)` and `name` is a function defined directly inside `fn` whose body is a single `return <expr>`, that
    expression with the parameters replaced by the arguments (it is evaluated where the call is); otherwise e itself."""
    if not (isinstance(e, ast.Call) and isinstance(e.func, ast.Name) and not e.keywords):
        return e
    defs = [d for d in ast.walk(fn) if isinstance(d, ast.FunctionDef) and d is not fn and d.name == e.func.id]
    if len(defs) != 1:
        return e
    body = [s_ for s_ in defs[0].body if not (isinstance(s_, ast.Expr) and isinstance(s_.value, ast.Constant))]
    ps = func_params(defs[0])
    if len(body) != 1 or not isinstance(body[0], ast.Return) or body[0].value is None or len(ps) != len(e.args):
        return e
    return _set_parents(clone(body[0].value, dict(zip(ps, e.args))))


def inline_call(model, cls_q, fn, e):
    """resolve_local, then a one-expression closure or same-class helper call, inlined."""
    e = resolve_local(fn, e)
    e2 = inline_closure_call(fn, e)
    if e2 is e:
        e2 = inline_self_call(model, cls_q, e)
    return e2


def subst_paths(fn):
    """A copy of `fn` in which every read of a local that is assigned exactly once, from a plain attribute path
    (`x = a.b`, also as an element of `x, y = a.b, c.d`), is replaced by that path.  The root of the path must not be
    reassigned in fn.  Lets rules read `from_text is None` as `from_node.text is None`."""
    assigned = {}
    counts = {}
    for a in walk_no_nested(fn):
        tgts = []
        if isinstance(a, ast.Assign):
            for t in a.targets:
                if isinstance(t, ast.Name):
                    tgts.append((t.id, a.value))
                elif isinstance(t, (ast.Tuple, ast.List)):
                    if isinstance(a.value, (ast.Tuple, ast.List)) and len(a.value.elts) == len(t.elts):
                        tgts += [(x.id, v) for x, v in zip(t.elts, a.value.elts) if isinstance(x, ast.Name)]
                    else:
                        tgts += [(x.id, None) for x in ast.walk(t) if isinstance(x, ast.Name)]
        elif isinstance(a, ast.AnnAssign) and isinstance(a.target, ast.Name):
            tgts.append((a.target.id, a.value))
        elif isinstance(a, (ast.AugAssign, ast.NamedExpr)) and isinstance(a.target, ast.Name):
            tgts.append((a.target.id, None))
        elif isinstance(a, (ast.For, ast.comprehension)):
            tgts += [(x.id, None) for x in ast.walk(a.target) if isinstance(x, ast.Name)]
        elif isinstance(a, ast.With):
            tgts += [(x.id, None) for i in a.items if i.optional_vars is not None for x in ast.walk(i.optional_vars) if isinstance(x, ast.Name)]
        for nm, v in tgts:
            counts[nm] = counts.get(nm, 0) + 1
            assigned[nm] = v
    env = {}
    for nm, v in assigned.items():
        if counts[nm] != 1 or v is None or not isinstance(v, ast.Attribute):
            continue
        root = v
        while isinstance(root, ast.Attribute):
            root = root.value
        if isinstance(root, ast.Name) and counts.get(root.id, 0) == 0:
            env[nm] = v

    def sub(node):
        if isinstance(node, list):
            return [sub(x) for x in node]
        if not isinstance(node, ast.AST):
            return node
        if isinstance(node, ast.Name) and isinstance(node.ctx, ast.Load) and node.id in env:
            return clone(env[node.id])
        new = type(node)(**{f: sub(getattr(node, f, None)) for f in node._fields})
        for a in ("lineno", "col_offset", "end_lineno", "end_col_offset"):
            if hasattr(node, a):
                setattr(new, a, getattr(node, a))
        return new
    return _set_parents(sub(fn)) if env else fn


def none_facts(node, stop=None):
    """The `X is None` / `X is not None` facts that dominate `node`, as a set of strings 'X isNone' / 'X isnotNone' (no
    blanks), whichever way round the branches are written."""
    out = set()
    for t, pol in flatten_conditions(dominating_conditions(node, stop=stop)):
        if isinstance(t, ast.Compare) and len(t.ops) == 1 and isinstance(t.ops[0], (ast.Is, ast.IsNot)) and is_none(t.comparators[0]):
            positive = isinstance(t.ops[0], ast.Is) == pol
            out.add(ast.unparse(t.left).replace(" ", "") + ("isNone" if positive else "isnotNone"))
    return out


def _returns_to_assign(stmts, target):
    """Statement list in which `return X` becomes `target = X` and guard clauses become if/else chains (exact for bodies
    made of if / assignment / raise / assert / return only).  None if the body has another shape."""
    out = []
    for i, s_ in enumerate(stmts):
        if isinstance(s_, ast.Return):
            if s_.value is None:
                return None
            if not (isinstance(s_.value, ast.Name) and s_.value.id == target):
                a = ast.Assign(targets=[ast.Name(id=target, ctx=ast.Store())], value=s_.value)
                ast.copy_location(a, s_)
                ast.fix_missing_locations(a)
                out.append(a)
            return out
        if isinstance(s_, ast.If):
            body = _returns_to_assign(s_.body, target)
            rest = stmts[i + 1:]
            if body is None:
                return None
            if terminates(s_.body) and not s_.orelse:
                orelse = _returns_to_assign(rest, target)
                if orelse is None:
                    return None
                new = ast.If(test=s_.test, body=body or [ast.Pass()], orelse=orelse)
                ast.copy_location(new, s_)
                out.append(new)
                return out
            orelse = _returns_to_assign(s_.orelse, target) if s_.orelse else []
            if orelse is None:
                return None
            new = ast.If(test=s_.test, body=body or [ast.Pass()], orelse=orelse)
            ast.copy_location(new, s_)
            out.append(new)
            if terminates(s_.body) and s_.orelse and terminates(s_.orelse):
                return out
            continue
        if isinstance(s_, (ast.Assign, ast.AnnAssign, ast.AugAssign, ast.Raise, ast.Assert, ast.Pass)) or \
                (isinstance(s_, ast.Expr) and isinstance(s_.value, ast.Constant)):
            out.append(s_)
            continue
        return None
    return out


def inline_value_helpers(model, module, fn, names=None, skip=()):
    """A copy of function node `fn` in which a statement `X = h(a, b, ...)` - h a module-level project function whose body is
    made of if / assignment / raise / return only - is replaced by h's body: parameters substituted by the arguments,
    `return V` turned into `X = V`, guard clauses turned into if/else chains, and the helper's local that is returned renamed
    to X.  Lets rules written against an inline if/elif chain read the same chain after it was extracted into a function."""
    changed = False

    def expand(stmts):
        nonlocal changed
        out = []
        for s_ in stmts:
            if isinstance(s_, ast.AnnAssign) and s_.value is not None and isinstance(s_.target, ast.Name):
                s2_ = ast.Assign(targets=[s_.target], value=s_.value)       # `X: T = h(...)` reads as `X = h(...)`
                ast.copy_location(s2_, s_)
                s_ = s2_
            if isinstance(s_, ast.Assign) and len(s_.targets) == 1 and isinstance(s_.targets[0], ast.Name) and isinstance(s_.value, ast.Call) \
                    and isinstance(s_.value.func, ast.Name) and not s_.value.keywords and (names is None or s_.targets[0].id in names):
                r_ = model.resolve_expr(module, s_.value.func)
                h = model.functions.get(r_[0][1]) if r_ and r_[0] and r_[0][0] == "func" else None
                if h is not None and h.node is not fn and h.cls is None and h.node.name not in skip:
                    ps = func_params(h.node)
                    if len(ps) == len(s_.value.args):
                        body = [b for b in h.node.body if not (isinstance(b, ast.Expr) and isinstance(b.value, ast.Constant))]
                        target = s_.targets[0].id
                        env = dict(zip(ps, s_.value.args))
                        # the helper's own local that is returned takes the caller's name
                        assigned_ = {t.id for a_ in walk_no_nested(h.node) if isinstance(a_, (ast.Assign, ast.AnnAssign))
                                     for t in (a_.targets if isinstance(a_, ast.Assign) else [a_.target]) if isinstance(t, ast.Name)}
                        rets = {r.value.id for r in walk_no_nested(h.node) if isinstance(r, ast.Return) and isinstance(r.value, ast.Name)
                                and r.value.id not in ps and r.value.id in assigned_}
                        for nm in rets:
                            env[nm] = ast.Name(id=target, ctx=ast.Load())
                        cl = clone(body, env)
                        # stores to a renamed local: clone() only substitutes loads by expression; fix Store contexts
                        for x in [y for b in cl for y in ast.walk(b)]:
                            if isinstance(x, ast.Name) and x.id in rets:
                                x.id = target
                        conv = _returns_to_assign(cl, target)
                        if conv is not None:
                            out.extend(conv)
                            changed = True
                            continue
            new = clone(s_)
            for fld in ("body", "orelse", "finalbody"):
                if isinstance(getattr(new, fld, None), list) and not isinstance(new, (ast.FunctionDef, ast.ClassDef)):
                    setattr(new, fld, expand(getattr(s_, fld)))
            out.append(new)
        return out
    new = clone(fn)
    new.body = expand(fn.body)
    return _set_parents(new) if changed else fn


def eval3(e, atoms):
    """Three-valued truth value of test `e` given {normalised atom text: bool}: True / False / None (unknown).  `a == b`,
    `b == a`, `not a != b` ... are one atom: equality atoms are keyed as 'L==R' with the operands sorted."""
    def key(x):
        return ast.unparse(x).replace(" ", "")
    if isinstance(e, ast.Constant):
        return bool(e.value)
    if isinstance(e, ast.UnaryOp) and isinstance(e.op, ast.Not):
        v = eval3(e.operand, atoms)
        return None if v is None else not v
    if isinstance(e, ast.BoolOp):
        vs = [eval3(v, atoms) for v in e.values]
        if isinstance(e.op, ast.And):
            return False if any(v is False for v in vs) else (True if all(v is True for v in vs) else None)
        return True if any(v is True for v in vs) else (False if all(v is False for v in vs) else None)
    if isinstance(e, ast.Compare) and len(e.ops) == 1 and isinstance(e.ops[0], (ast.Eq, ast.NotEq)):
        k = "==".join(sorted((key(e.left), key(e.comparators[0]))))
        if k in atoms:
            return atoms[k] if isinstance(e.ops[0], ast.Eq) else not atoms[k]
        return None
    return atoms.get(key(e))


def facts_refute(facts, atoms):
    """True if the signed facts [(test, polarity)] cannot all hold under the given atom values."""
    for t, pol in facts:
        v = eval3(t, atoms)
        if v is not None and v != pol:
            return True
    return False


def desugar_yield_from(fn):
    """A copy of function node `fn` in which a statement `yield from (E for v in IT if C ...)` is written as the loops it
    abbreviates (`for v in IT: if C: yield E`), so that rules stated over loops read both spellings."""
    changed = False

    def conv(stmts):
        nonlocal changed
        out = []
        for s_ in stmts:
            v = s_.value if isinstance(s_, ast.Expr) else None
            if isinstance(v, ast.YieldFrom) and isinstance(v.value, (ast.GeneratorExp, ast.ListComp)):
                g = v.value
                inner = [ast.Expr(value=ast.Yield(value=g.elt))]
                for comp in reversed(g.generators):
                    for c in reversed(comp.ifs):
                        inner = [ast.If(test=c, body=inner, orelse=[])]
                    inner = [ast.For(target=comp.target, iter=comp.iter, body=inner, orelse=[])]
                for x in inner:
                    ast.copy_location(x, s_)
                    ast.fix_missing_locations(x)
                out.extend(inner)
                changed = True
                continue
            for fld in ("body", "orelse", "finalbody"):
                if isinstance(getattr(s_, fld, None), list) and not isinstance(s_, (ast.FunctionDef, ast.ClassDef)):
                    setattr(s_, fld, conv(getattr(s_, fld)))
            out.append(s_)
        return out
    new = clone(fn)
    new.body = conv(new.body)
    return _set_parents(new) if changed else fn


def code(node):
    """Source text of a function / class node WITHOUT docstrings (its own and those of nested definitions): text tests on a
    function must not be satisfied by a code example in its documentation."""
    new = clone(node)
    for n in ast.walk(new):
        if isinstance(n, (ast.FunctionDef, ast.AsyncFunctionDef, ast.ClassDef, ast.Module)) and n.body \
                and isinstance(n.body[0], ast.Expr) and isinstance(n.body[0].value, ast.Constant) and isinstance(n.body[0].value.value, str):
            n.body = n.body[1:] or [ast.Pass()]
    return ast.unparse(new)
