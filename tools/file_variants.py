#!/venv/bin/python
"""File the variants a batch of sub-agents delivered under <root>/C*/variant_out/<i>/ next to their seeds, as
/verif/seeded/<seed>-v<k>/ (patch.diff, notes.md, the seed's demo.py, meta.json with confirmed=False), and confirm each
one independently with tools/rebase_seed.py (fresh scratch worktree: demo passes on HEAD, fails with the patch, package
imports, 66 tests pass) - `--jobs` confirmations at a time.

usage: file_variants.py <root> [--jobs N] [--no-confirm]
<root>/C*/given/SEED names the seed the agent was given.  Variant numbers continue after the ones already filed.
"""
import glob, json, os, re, shutil, subprocess, sys
from concurrent.futures import ThreadPoolExecutor

V = os.path.dirname(os.path.dirname(os.path.abspath(__file__)))


def main():
    root = sys.argv[1].rstrip("/")
    jobs = int(next((a.split("=", 1)[1] for a in sys.argv if a.startswith("--jobs=")), "10"))
    filed = []
    for P in sorted(glob.glob(f"{root}/C*/")):
        seedf = P + "given/SEED"
        if not os.path.exists(seedf):
            continue
        sid = open(seedf).read().strip()
        have = [int(m.group(1)) for d in os.listdir(f"{V}/seeded") if (m := re.fullmatch(re.escape(sid) + r"-v(\d+)", d))]
        k = max(have, default=0)
        for d in sorted(glob.glob(P + "variant_out/*/")):
            if not os.path.exists(d + "patch.diff") or os.path.getsize(d + "patch.diff") == 0:
                continue
            text = open(d + "patch.diff").read()
            if any(open(f"{V}/seeded/{sid}-v{j}/patch.diff").read() == text for j in have):
                continue
            k += 1
            vid = f"{sid}-v{k}"
            dst = f"{V}/seeded/{vid}"
            os.makedirs(dst, exist_ok=True)
            shutil.copy(d + "patch.diff", dst + "/patch.diff")
            if os.path.exists(d + "notes.md"):
                shutil.copy(d + "notes.md", dst + "/notes.md")
            shutil.copy(f"{V}/seeded/{sid}/demo.py", dst + "/demo.py")
            src = json.load(open(f"{V}/seeded/{sid}/meta.json"))
            json.dump({"id": vid, "property": src["property"],
                       "source": f"variant of {sid}: an independent sub-agent given that seed (patch, notes, demo) and asked to write the same bug in a different shape",
                       "variant_of": sid, "confirmed": False, "ran": []}, open(dst + "/meta.json", "w"), indent=1)
            filed.append(vid)
    print("filed", len(filed), " ".join(filed))
    if "--no-confirm" in sys.argv:
        return

    def confirm(vid):
        r = subprocess.run([f"{V}/tools/rebase_seed.py", vid], capture_output=True, text=True)
        last = (r.stdout + r.stderr).strip().splitlines()[-1:] or [""]
        return vid, last[0][:200]

    with ThreadPoolExecutor(jobs) as ex:
        for vid, line in ex.map(confirm, filed):
            ok = json.load(open(f"{V}/seeded/{vid}/meta.json")).get("confirmed")
            print(("confirmed " if ok else "NOT CONFIRMED ") + vid, line)


if __name__ == "__main__":
    main()
