"""C12: the plist loader also accepts binary plists, whose value domain is wider than what PLISTFormatter can write:
a null (kCFNull, object byte 0x00) makes printing raise TypeError, a non-string dictionary key is printed as
`<key><integer>5</integer></key>`, which the loader rejects."""
import io
import os
import struct
import sys
import tempfile

import graphtage
from graphtage.printer import Printer


def bplist(objects, top=0) -> bytes:
    """Assembles a binary plist (1-byte offsets and object references) from already encoded objects."""
    out = b'bplist00'
    offsets = []
    for o in objects:
        offsets.append(len(out))
        out += o
    table = len(out)
    out += bytes(offsets)
    out += b'\x00' * 6 + bytes([1, 1]) + struct.pack('>QQQ', len(objects), top, table)
    return out


DOCS = [
    ('[null, "abc"]', bplist([b'\xa2\x01\x02', b'\x00', b'\x53abc'])),
    ('{"k": null}', bplist([b'\xd1\x01\x02', b'\x51k', b'\x00'])),
    ('{5: "abc"}', bplist([b'\xd1\x01\x02', b'\x10\x05', b'\x53abc'])),
]


def load(ft, data: bytes):
    fd, path = tempfile.mkstemp()
    try:
        os.write(fd, data)
        os.close(fd)
        return ft.build_tree(path)
    finally:
        os.unlink(path)


def main() -> int:
    ft = graphtage.FILETYPES_BY_TYPENAME['plist']
    failures = []
    for desc, data in DOCS:
        try:
            tree = load(ft, data)
        except Exception as e:
            print(f'{desc}: not accepted by the loader ({type(e).__name__}: {e}); skipped')
            continue
        out = io.StringIO()
        try:
            ft.get_default_formatter().print(Printer(out_stream=out, ansi_color=False, quiet=True), tree)
        except Exception as e:
            failures.append(f'{desc}: loaded as {tree!r}, but printing raised {type(e).__name__}: {e}')
            continue
        try:
            again = load(ft, out.getvalue().encode('utf-8'))
        except Exception as e:
            failures.append(f'{desc}: loaded as {tree!r}, printed text rejected by the loader ({type(e).__name__}: {e})')
            continue
        if again != tree:
            failures.append(f'{desc}: loaded as {tree!r}, printed text loads as {again!r}')
    for f in failures:
        print('VIOLATION', f)
    return 1 if failures else 0


if __name__ == '__main__':
    sys.exit(main())
