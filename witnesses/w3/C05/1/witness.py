"""C05: an EditCollection (the edit of a plist root, the edit of a fixed-key dictionary) under-estimates its upper bound
while its sub-edit iterator is not exhausted.  Two order dependences follow:

A. plist documents: listing the first two sub-edits of the root edit and refining the second one *before* refining the
   root makes the root report "complete" with a definitive cost that is not the final cost; the protocol loop of
   TreeNode.diff() (`while edit.valid and not edit.is_complete() and edit.tighten_bounds()`) then stops at once.

B. a one-element list holding a fixed-key dictionary whose value is a set (what graphtage.pydiff builds for
   `[{'a': {...}}]` with allow_key_edits=False): `while edit.tighten_bounds(): pass` never returns, whereas the same
   loop terminates (cost 33) if the sub-edits are listed first.
"""
import logging
import os
import plistlib
import signal
import sys
import tempfile

from graphtage import FixedKeyDictNode, ListNode, MultiSetNode, StringNode, plist
from graphtage.printer import DEFAULT_PRINTER

DEFAULT_PRINTER.quiet = True
logging.disable(logging.CRITICAL)  # part B logs a warning per iteration of the endless loop

FROM = {'ab0': 'abbaabaaababaaa', 'ba1': 'ba'}
TO = {'bbx0': ''}


def plist_trees(directory):
    paths = []
    for name, doc in (("from.plist", FROM), ("to.plist", TO)):
        path = os.path.join(directory, name)
        with open(path, "wb") as f:
            plistlib.dump(doc, f)
        paths.append(path)
    return plist.build_tree(paths[0]), plist.build_tree(paths[1])


def protocol_loop(edit):
    """What TreeNode.diff() and TreeNode.get_all_edit_contexts() do before they read the result."""
    while edit.valid and not edit.is_complete() and edit.tighten_bounds():
        pass
    return edit.bounds()


def finish(edit):
    while edit.tighten_bounds():
        pass
    return edit.bounds()


def part_a() -> bool:
    failed = False
    with tempfile.TemporaryDirectory() as d:
        a, b = plist_trees(d)
        reference = finish(a.edits(b))
        print(f"A: reference cost {reference}")
        for refinements in range(0, 12):
            a, b = plist_trees(d)
            root = a.edits(b)
            listing = root.edits()      # list the sub-edits ...
            next(listing)               # ... Match(plist, plist)
            sub = next(listing)         # ... and the edit of the root dictionaries
            alive = True
            for _ in range(refinements):
                alive = sub.tighten_bounds()
            claimed_complete = root.is_complete()
            claimed = root.bounds()
            after_loop = protocol_loop(root)
            final = finish(root)
            if str(final) != str(reference):
                print(f"A: {refinements} refinements of the sub-edit first: final cost {final} != {reference}")
                failed = True
            if claimed_complete and claimed.definitive() and str(claimed) != str(final):
                print(f"A: {refinements} refinement(s) of the sub-edit first: root.is_complete() is True and "
                      f"root.bounds() is {claimed}, the protocol loop ends with {after_loop}, "
                      f"but the final cost is {final}")
                failed = True
            elif claimed.upper_bound < claimed.lower_bound:
                print(f"A: {refinements} refinement(s) of the sub-edit first: root.bounds() is the inverted range "
                      f"{claimed}")
                failed = True
            if not alive:
                break
    return failed


class Hang(Exception):
    pass


def _alarm(*_):
    raise Hang()


def set_trees():
    a = ['abababbbbaba', 'abaabbbabaab', 'abb', 'babbaaabbbab']
    b = ['aaa', 'abbbaaabbabb', 'bbaaababbababbabaaaaaaabaababa', 'a']
    return (
        ListNode([FixedKeyDictNode.from_dict({StringNode('a'): MultiSetNode([StringNode(x) for x in a])})]),
        ListNode([FixedKeyDictNode.from_dict({StringNode('a'): MultiSetNode([StringNode(x) for x in b])})])
    )


def refine_with_time_limit(edit, seconds=20):
    signal.signal(signal.SIGALRM, _alarm)
    signal.alarm(seconds)
    try:
        return finish(edit)
    except Hang:
        return None
    finally:
        signal.alarm(0)


def part_b() -> bool:
    a, b = set_trees()
    listed_first = a.edits(b)
    for sub in listed_first.edits():
        list(sub.edits())               # only list, refine nothing
    cost_listed_first = refine_with_time_limit(listed_first)

    a, b = set_trees()
    refined_first = a.edits(b)
    cost_refined_first = refine_with_time_limit(refined_first)

    print(f"B: sub-edits listed first: {cost_listed_first}; refined at once: "
          f"{'no result after 20 s (endless loop)' if cost_refined_first is None else cost_refined_first}"
          f"{'' if cost_refined_first is not None else ', bounds() meanwhile ' + str(refined_first.bounds())}")
    return cost_listed_first is None or cost_refined_first is None or str(cost_listed_first) != str(cost_refined_first)


def main() -> int:
    failed_a = part_a()
    failed_b = part_b()
    return 1 if failed_a or failed_b else 0


if __name__ == "__main__":
    sys.exit(main())
