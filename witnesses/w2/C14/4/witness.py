"""C14 witness 4: `--no-status` / `--quiet` are not honoured by the diffing stage.

`--no-status`: "do not display progress bars and status messages"; `--quiet`: "equivalent to --log-level=CRITICAL
--no-status".  The command builds a quiet Printer and installs it with `printermodule.DEFAULT_PRINTER = printer`, but
tree.py, levenshtein.py and json.py did `from .printer import DEFAULT_PRINTER` at import time, so the library keeps
using the original, non-quiet printer: the "Diffing" (and "Tightening Fringe Diagonal") bars still go to stderr.
"""
import os
import subprocess
import sys
import tempfile


def main():
    with tempfile.TemporaryDirectory() as d:
        with open(os.path.join(d, 'a.json'), 'w') as f:
            f.write('{"a": [1, 2], "b": "x"}')
        with open(os.path.join(d, 'b.json'), 'w') as f:
            f.write('{"a": [1, 3], "c": "x"}')
        bad = []
        for opts in (['--quiet'], ['--no-status'], ['--log-level', 'CRITICAL', '--no-status']):
            p = subprocess.run([sys.executable, '-m', 'graphtage'] + opts + ['a.json', 'b.json'], cwd=d,
                               capture_output=True, stdin=subprocess.DEVNULL, env=os.environ)
            err = p.stderr.decode('utf-8', 'replace')
            if p.returncode == 1 and err.strip() != '':
                bad.append((opts, err.strip().replace('\r', ' ')[:80]))
        if bad:
            print("VIOLATION: status output on stderr although it was switched off:")
            for opts, err in bad:
                print(f"  graphtage {' '.join(opts)} a.json b.json -> stderr: {err!r}")
            return 1
    print("ok: no status output")
    return 0


if __name__ == '__main__':
    sys.exit(main())
