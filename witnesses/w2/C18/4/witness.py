"""C18 witness: with check_for_cycles=False a cyclic structure never terminates - neither a cycle error nor (with
ignore_cycles=True) a placeholder; the work stack grows until memory is exhausted.

The build runs in a child process with a CPU-time/address-space limit so that the witness itself always terminates."""
import subprocess
import sys
import time

CHILD = r"""
import resource, sys
from graphtage import BuildOptions
from graphtage.builder import BasicBuilder, CyclicReference
from graphtage import pydiff
resource.setrlimit(resource.RLIMIT_AS, (4 * 1024 ** 3, 4 * 1024 ** 3))   # safety net only
ignore = sys.argv[1] == "1"
which = sys.argv[2]
a = [1, 2]
a.append({"self": a})          # a -> dict -> a
options = BuildOptions(check_for_cycles=False, ignore_cycles=ignore)
assert options.check_for_cycles is False and options.ignore_cycles is ignore
try:
    if which == "basic":
        tree = BasicBuilder(options).build_tree(a)
    else:
        tree = pydiff.build_tree(a, options)
except ValueError as e:
    print("cycle error:", str(e)[:60]); sys.exit(0)
except MemoryError:
    print("MemoryError"); sys.exit(3)
if any(isinstance(n, CyclicReference) for n in tree.dfs()):
    print("placeholder"); sys.exit(0)
print("returned a tree without placeholder?!", tree); sys.exit(4)
"""

bad = []
LIMIT = 8  # seconds; the control below needs a few milliseconds
procs = []
for ignore in ("0", "1"):
    for which in ("basic", "pyobj"):
        label = f"check_for_cycles=False, ignore_cycles={ignore == '1'}, {which}"
        procs.append((label, subprocess.Popen([sys.executable, "-c", CHILD, ignore, which],
                                              stdout=subprocess.PIPE, stderr=subprocess.PIPE, text=True)))
deadline = time.time() + LIMIT
for label, p in procs:
    try:
        out, err = p.communicate(timeout=max(0.1, deadline - time.time()))
    except subprocess.TimeoutExpired:
        p.kill()
        p.communicate()
        bad.append(f"{label}: still running after {LIMIT} s (3-container cyclic structure)")
        continue
    if p.returncode == 0:
        print(f"{label}: ok, {out.strip()}")
    elif p.returncode in (3, 4):
        bad.append(f"{label}: {out.strip()} (no cycle error, no placeholder)")
    else:
        print(f"{label}: unexpected child failure rc={p.returncode}\n{err[-600:]}")
        sys.exit(2)

# control: the same structure with the default check_for_cycles=True terminates at once
for ignore in ("0", "1"):
    p = subprocess.run([sys.executable, "-c", CHILD.replace("check_for_cycles=False", "check_for_cycles=True")
                       .replace("options.check_for_cycles is False", "options.check_for_cycles is True"),
                        ignore, "basic"], capture_output=True, text=True, timeout=60)
    print(f"control check_for_cycles=True, ignore_cycles={ignore == '1'}: rc={p.returncode} {p.stdout.strip()}")

if bad:
    print("\n".join(bad))
    sys.exit(1)
sys.exit(0)
