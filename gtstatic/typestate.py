"""E2 - typestate of lazily freed fields (syntax-directed abstract interpretation, per class).

Fields assigned None outside __init__ are discovered by query; every dereference must be non-null on all paths.
Public methods start maybe-null (any call order); private methods get the join of their call sites.  Facts are
refined by guards, asserts, early returns and predicate summaries, killed by self-calls whose may-nullify summary
includes the field, and supported by correlated-field invariants and atomic groups (see DESIGN.md, E2)."""
import ast, sys, copy

NN, MN = "NN", "MN"   # non-null / maybe-null


def self_attr(e):
    """return field name if e is self.<field>"""
    if isinstance(e, ast.Attribute) and isinstance(e.value, ast.Name) and e.value.id == "self":
        return e.attr
    return None


class ClassAnalysis:
    def __init__(self, model, qual):
        self.model = model
        self.qual = qual
        m, cls = model.classes[qual]
        self.cls = cls
        self.fname = model.files[m]
        self.own = {n.name for n in cls.body if isinstance(n, ast.FunctionDef)}
        self.methods = {}
        self.owner = {}
        for k in model.c3(qual):
            km, kc = model.classes[k]
            for n in kc.body:
                if isinstance(n, ast.FunctionDef) and n.name not in self.methods:
                    self.methods[n.name] = n
                    self.owner[n.name] = k
        self.fields = self.discover_nullable()
        self.groups = self.atomic_groups()
        self.may_nullify = self.compute_may_nullify()
        self.pred = {}          # method -> {True: set(fields NN), False: set(fields NN)}
        self.invariants = self.correlated_invariants()   # (F, G): F is None => G is not None
        self.entry = {}         # private method -> joined entry state
        self.entry_sources = {}  # private method -> [(caller, lineno, state)]
        self.reports = []
        self.sites = []         # every dereference examined in the final pass: dict
        self.proved = 0

    # ---------- discovery
    def discover_nullable(self):
        out = set()
        for name, m in self.methods.items():
            if name == "__init__":
                continue
            for n in ast.walk(m):
                if isinstance(n, ast.Assign) and isinstance(n.value, ast.Constant) and n.value.value is None:
                    for t in n.targets:
                        f = self_attr(t)
                        if f:
                            out.add(f)
        return out

    def atomic_groups(self):
        # fields nulled in consecutive simple statements of one block
        groups = []
        for m in self.methods.values():
            for n in ast.walk(m):
                body = getattr(n, "body", None)
                if not isinstance(body, list):
                    continue
                run = []
                for st in body:
                    f = None
                    if isinstance(st, ast.Assign) and isinstance(st.value, ast.Constant) and st.value.value is None and len(st.targets) == 1:
                        f = self_attr(st.targets[0])
                    if f:
                        run.append(f)
                    else:
                        if len(run) > 1:
                            groups.append(set(run))
                        run = []
                if len(run) > 1:
                    groups.append(set(run))
        return groups

    def self_calls(self, m):
        out = set()
        for n in ast.walk(m):
            if isinstance(n, ast.Call):
                f = self_attr(n.func)
                if f and f in self.methods:
                    out.add(f)
        return out

    def compute_may_nullify(self):
        direct = {}
        for name, m in self.methods.items():
            s = set()
            for n in ast.walk(m):
                if isinstance(n, ast.Assign) and isinstance(n.value, ast.Constant) and n.value.value is None:
                    for t in n.targets:
                        f = self_attr(t)
                        if f in self.fields:
                            s.add(f)
            direct[name] = s if name != "__init__" else set()
        changed = True
        while changed:
            changed = False
            for name, m in self.methods.items():
                for c in self.self_calls(m):
                    new = direct[name] | direct[c]
                    if new != direct[name]:
                        direct[name] = new
                        changed = True
        return direct

    def correlated_invariants(self):
        """At a site `self.F = None`, which `assert self.G is not None` dominates it in the same block,
        with G monotone (never assigned None outside __init__)."""
        inv = set()
        for m in self.methods.values():
            for n in ast.walk(m):
                body = getattr(n, "body", None)
                if not isinstance(body, list):
                    continue
                asserted = set()
                for st in body:
                    if isinstance(st, ast.Assert):
                        t = st.test
                        if isinstance(t, ast.Compare) and len(t.ops) == 1 and isinstance(t.ops[0], ast.IsNot) \
                                and isinstance(t.comparators[0], ast.Constant) and t.comparators[0].value is None:
                            g = self_attr(t.left)
                            if g and g not in self.fields:
                                asserted.add(g)
                    elif isinstance(st, ast.Assign) and isinstance(st.value, ast.Constant) and st.value.value is None:
                        for tg in st.targets:
                            f = self_attr(tg)
                            if f in self.fields:
                                for g in asserted:
                                    inv.add((f, g))
                    elif any(isinstance(x, ast.Call) for x in ast.walk(st)):
                        asserted = set()   # a call could change things (conservative)
        return inv

    # ---------- abstract interpretation
    def top(self):
        return {f: MN for f in self.fields}

    def join(self, a, b):
        if a is None:
            return copy.copy(b)
        if b is None:
            return copy.copy(a)
        return {f: (NN if a[f] == NN and b[f] == NN else MN) for f in self.fields}

    def set_nn(self, st, f):
        st = dict(st)
        st[f] = NN
        for g in self.groups:
            if f in g:
                for h in g:
                    st[h] = NN
        return st

    def kill(self, st, fields):
        st = dict(st)
        for f in fields:
            st[f] = MN
            for g in self.groups:
                if f in g:
                    for h in g:
                        st[h] = MN
        return st

    def deref(self, node, f, st, where):
        if f in self.fields:
            ok = st[f] == NN
            if ok:
                self.proved += 1
            else:
                self.reports.append((where, node.lineno, f, ast.unparse(node)[:60]))
            self.sites.append({"method": where, "node": node, "field": f, "ok": ok})

    def eval(self, e, st, where):
        """returns (state, state_if_true, state_if_false)"""
        if e is None:
            return st, st, st
        if isinstance(e, ast.BoolOp):
            cur = st
            if isinstance(e.op, ast.And):
                false_states = None
                for v in e.values:
                    s, t, f = self.eval(v, cur, where)
                    false_states = self.join(false_states, f)
                    cur = t
                return self.join(cur, false_states), cur, false_states
            else:
                true_states = None
                for v in e.values:
                    s, t, f = self.eval(v, cur, where)
                    true_states = self.join(true_states, t)
                    cur = f
                return self.join(cur, true_states), true_states, cur
        if isinstance(e, ast.UnaryOp) and isinstance(e.op, ast.Not):
            s, t, f = self.eval(e.operand, st, where)
            return s, f, t
        if isinstance(e, ast.Compare) and len(e.ops) == 1 and isinstance(e.comparators[0], ast.Constant) \
                and e.comparators[0].value is None and isinstance(e.ops[0], (ast.Is, ast.IsNot)):
            f = self_attr(e.left)
            if f:
                nn = st
                isnone = st
                if f in self.fields:
                    nn = self.set_nn(st, f)
                else:
                    # correlated: G is None  =>  F is not None   (contrapositive of F None => G not None)
                    for (F, G) in self.invariants:
                        if G == f:
                            isnone = self.set_nn(isnone, F)
                if isinstance(e.ops[0], ast.Is):
                    return st, isnone, nn
                return st, nn, isnone
            s, _, _ = self.eval(e.left, st, where)
            return s, s, s
        if isinstance(e, ast.Call):
            cur = st
            callee = self_attr(e.func)
            if callee is None:
                cur, _, _ = self.eval(e.func, cur, where)
            elif callee in self.fields and callee not in self.methods:
                self.deref(e, callee, cur, where)
            # builtin derefs: len(self.F), next(self.F), iter(self.F)
            for a in list(e.args) + [k.value for k in e.keywords]:
                fa = self_attr(a)
                if fa in self.fields and not (callee is None and isinstance(e.func, ast.Name) and e.func.id in ("isinstance", "bool", "print", "repr")):
                    self.deref(a, fa, cur, where)
                cur, _, _ = self.eval(a, cur, where)
            if callee in self.methods:
                if callee.startswith("_") and not callee.startswith("__"):
                    self.entry[callee] = self.join(self.entry.get(callee), cur)
                    self.entry_sources.setdefault(callee, {})[(where, e.lineno)] = dict(cur)
                cur = self.kill(cur, self.may_nullify[callee])
                p = self.pred.get(callee)
                if p:
                    t = cur
                    f = cur
                    for fld in p.get(True, ()):
                        t = self.set_nn(t, fld)
                    for fld in p.get(False, ()):
                        f = self.set_nn(f, fld)
                    return cur, t, f
            return cur, cur, cur
        if isinstance(e, (ast.Subscript, ast.Attribute)):
            base = e.value
            f = self_attr(base)
            if f in self.fields:
                self.deref(e, f, st, where)
                cur = st
            else:
                cur, _, _ = self.eval(base, st, where)
            if isinstance(e, ast.Subscript):
                cur, _, _ = self.eval(e.slice, cur, where)
            return cur, cur, cur
        if isinstance(e, (ast.GeneratorExp, ast.ListComp, ast.SetComp, ast.DictComp)):
            cur = st
            for g in e.generators:
                f = self_attr(g.iter)
                if f in self.fields:
                    self.deref(g.iter, f, cur, where)
                cur, _, _ = self.eval(g.iter, cur, where)
                for c in g.ifs:
                    cur, _, _ = self.eval(c, cur, where)
            elts = [e.key, e.value] if isinstance(e, ast.DictComp) else [e.elt]
            for x in elts:
                cur, _, _ = self.eval(x, cur, where)
            return cur, cur, cur
        if isinstance(e, ast.IfExp):
            s, t, f = self.eval(e.test, st, where)
            a, _, _ = self.eval(e.body, t, where)
            b, _, _ = self.eval(e.orelse, f, where)
            j = self.join(a, b)
            return j, j, j
        cur = st
        for ch in ast.iter_child_nodes(e):
            if isinstance(ch, ast.expr):
                cur, _, _ = self.eval(ch, cur, where)
        return cur, cur, cur

    def block(self, stmts, st, ctx, where):
        """ctx: dict with lists 'ret' [(state, value)], 'brk', 'cont'. returns fallthrough state or None"""
        cur = st
        for s in stmts:
            if cur is None:
                break
            cur = self.stmt(s, cur, ctx, where)
        return cur

    def stmt(self, s, st, ctx, where):
        if isinstance(s, (ast.Expr,)):
            return self.eval(s.value, st, where)[0]
        if isinstance(s, (ast.Assign, ast.AnnAssign, ast.AugAssign)):
            val = s.value
            cur = self.eval(val, st, where)[0] if val is not None else st
            targets = s.targets if isinstance(s, ast.Assign) else [s.target]
            for t in targets:
                for tt in (t.elts if isinstance(t, (ast.Tuple, ast.List)) else [t]):
                    f = self_attr(tt)
                    if f in self.fields:
                        if isinstance(val, ast.Constant) and val.value is None:
                            cur = self.kill(cur, {f})
                        else:
                            cur = self.set_nn(cur, f) if not isinstance(s, ast.AugAssign) else cur
                    else:
                        cur = self.eval(tt, cur, where)[0] if not isinstance(tt, ast.Name) else cur
            return cur
        if isinstance(s, ast.Return):
            cur = st
            tv = fv = None
            if s.value is not None:
                cur, t, f = self.eval(s.value, st, where)
                tv, fv = t, f
            ctx["ret"].append((cur, s.value, tv, fv))
            return None
        if isinstance(s, ast.Raise):
            if s.exc is not None:
                self.eval(s.exc, st, where)
            return None
        if isinstance(s, ast.Assert):
            _, t, _ = self.eval(s.test, st, where)
            return t
        if isinstance(s, ast.If):
            _, t, f = self.eval(s.test, st, where)
            a = self.block(s.body, t, ctx, where)
            b = self.block(s.orelse, f, ctx, where)
            if a is None:
                return b
            if b is None:
                return a
            return self.join(a, b)
        if isinstance(s, ast.While):
            head = st
            always = isinstance(s.test, ast.Constant) and s.test.value is True
            for _ in range(6):
                inner = {"ret": ctx["ret"], "brk": [], "cont": []}
                _, t, f = self.eval(s.test, head, where)
                out = self.block(s.body, t, inner, where)
                nxt = head
                for x in [out] + inner["cont"]:
                    if x is not None:
                        nxt = self.join(nxt, x)
                exit_states = ([] if always else [f]) + inner["brk"]
                if nxt == head:
                    break
                head = nxt
            res = None
            for x in exit_states:
                res = self.join(res, x)
            if s.orelse and res is not None:
                res = self.block(s.orelse, res, ctx, where)
            return res
        if isinstance(s, ast.For):
            cur = st
            f = self_attr(s.iter)
            if f in self.fields:
                self.deref(s.iter, f, cur, where)
            cur = self.eval(s.iter, cur, where)[0]
            head = cur
            for _ in range(6):
                inner = {"ret": ctx["ret"], "brk": [], "cont": []}
                out = self.block(s.body, head, inner, where)
                nxt = head
                for x in [out] + inner["cont"]:
                    if x is not None:
                        nxt = self.join(nxt, x)
                brk = inner["brk"]
                if nxt == head:
                    break
                head = nxt
            res = head
            if s.orelse:
                res = self.block(s.orelse, res, ctx, where)
            for x in brk:
                res = self.join(res, x)
            return res
        if isinstance(s, ast.Break):
            ctx["brk"].append(st)
            return None
        if isinstance(s, ast.Continue):
            ctx["cont"].append(st)
            return None
        if isinstance(s, ast.With):
            cur = st
            for it in s.items:
                cur = self.eval(it.context_expr, cur, where)[0]
            return self.block(s.body, cur, ctx, where)
        if isinstance(s, ast.Try):
            body_out = self.block(s.body, st, ctx, where)
            # handler entry: join of st and body_out, minus anything the body may have nullified (coarse)
            h_in = self.join(st, body_out) if body_out is not None else st
            nul = set()
            for n in ast.walk(ast.Module(body=s.body, type_ignores=[])):
                if isinstance(n, ast.Call):
                    c = self_attr(n.func)
                    if c in self.methods:
                        nul |= self.may_nullify[c]
            h_in = self.kill(h_in, nul)
            outs = [body_out if not s.orelse else (self.block(s.orelse, body_out, ctx, where) if body_out is not None else None)]
            for h in s.handlers:
                outs.append(self.block(h.body, h_in, ctx, where))
            res = None
            for o in outs:
                if o is not None:
                    res = self.join(res, o)
            if s.finalbody:
                res = self.block(s.finalbody, res if res is not None else h_in, ctx, where)
            return res
        if isinstance(s, (ast.Pass, ast.Global, ast.Nonlocal, ast.Import, ast.ImportFrom, ast.FunctionDef, ast.ClassDef)):
            return st
        if isinstance(s, ast.Delete):
            return st
        raise NotImplementedError(type(s).__name__)

    def run_method(self, name, entry):
        m = self.methods[name]
        ctx = {"ret": [], "brk": [], "cont": []}
        out = self.block(m.body, entry, ctx, name)
        return ctx["ret"], out

    def compute_predicates(self):
        """returns-True/False implies non-null facts (computed with reports disabled)."""
        for _ in range(3):
            for name in self.methods:
                saved = (self.reports, self.proved, dict(self.entry))
                self.reports = []
                rets, out = self.run_method(name, self.top())
                self.reports, self.proved, self.entry = saved[0], saved[1], saved[2]
                tfacts = None
                ffacts = None
                ok = out is None   # no fall-through (implicit None)
                for (st, val, tv, fv) in rets:
                    if val is None:
                        ok = False
                        continue
                    if isinstance(val, ast.Constant) and val.value is True:
                        tfacts = self.join(tfacts, st)
                    elif isinstance(val, ast.Constant) and val.value is False:
                        ffacts = self.join(ffacts, st)
                    else:
                        tfacts = self.join(tfacts, tv)
                        ffacts = self.join(ffacts, fv)
                if not ok:
                    continue
                p = {}
                if tfacts is not None:
                    p[True] = {f for f in self.fields if tfacts[f] == NN}
                if ffacts is not None:
                    p[False] = {f for f in self.fields if ffacts[f] == NN}
                # predicate facts are only valid about the *exit* state if method doesn't nullify afterwards: we use exit states, fine
                if p.get(True) or p.get(False):
                    self.pred[name] = p

    def analyse(self):
        self.compute_predicates()
        # iterate to get private entry states
        for _ in range(6):
            self.reports = []
            self.sites = []
            self.proved = 0
            entries_before = dict(self.entry)
            for name in self.methods:
                if name == "__init__":
                    continue
                if name.startswith("_") and not name.startswith("__"):
                    entry = self.entry.get(name)
                    if entry is None:
                        continue   # never called yet
                else:
                    entry = self.top()
                self.run_method(name, entry)
            if entries_before == self.entry:
                break
        return sorted(set(self.reports))


