"""C02: an empty mapping and an empty set are different data ({} != set()); nested inside a list or a mapping
value they are reported equal (cost 0, exit 0), although the same pair at the root costs 1."""
import os, pickle, subprocess, sys, tempfile


def run(*args):
    p = subprocess.run([sys.executable, "-m", "graphtage", "--no-color", "--quiet", *args],
                       stdout=subprocess.PIPE, stderr=subprocess.PIPE, env=os.environ)
    return p.returncode, p.stdout.decode("utf-8", "replace")


def main():
    failures = []
    pairs = [([{}], [set()]), ({"k": {}}, {"k": set()}), ([1, {}, 2], [1, frozenset(), 2])]
    with tempfile.TemporaryDirectory() as d:
        # command line: the pickle file type
        for i, (a, b) in enumerate(pairs):
            assert a != b  # the oracle
            pa, pb = os.path.join(d, f"a{i}.pkl"), os.path.join(d, f"b{i}.pkl")
            with open(pa, "wb") as f:
                pickle.dump(a, f)
            with open(pb, "wb") as f:
                pickle.dump(b, f)
            for x, y, what in ((pa, pb, f"{a!r} vs {b!r}"), (pb, pa, f"{b!r} vs {a!r}")):
                rc, out = run("--from-pickle", "--to-pickle", x, y)
                if rc == 0:
                    failures.append(f"pickle files {what}: exit status 0, report {' '.join(out.split())!r}")
    # library: pydiff
    try:
        import graphtage.printer, graphtage.tree
        graphtage.printer.DEFAULT_PRINTER.quiet = True
        graphtage.tree.DEFAULT_PRINTER.quiet = True
        from graphtage import pydiff
        for a, b in pairs:
            cost = pydiff.diff(a, b).edited_cost()
            if cost == 0:
                root = pydiff.diff({}, set()).edited_cost()
                failures.append(f"pydiff.diff({a!r}, {b!r}).edited_cost() == 0 (at the root, {{}} vs set() costs {root})")
    except Exception as ex:
        print(f"note: library comparison raised {type(ex).__name__}: {ex}")
    if failures:
        print("C02 violated: an empty mapping and an empty set inside a container are reported equal")
        for f in failures:
            print("  -", f)
        return 1
    print("ok: {} and set() differ wherever they occur")
    return 0


if __name__ == "__main__":
    sys.exit(main())
