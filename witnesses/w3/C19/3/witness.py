"""C19: str()/ascii()/'%s' - and get_member's own error message - of a bound method read `__qualname__` and `__name__`
of the callable the method wraps.

A bound method is reachable as `obj.name` whenever the class attribute's `__get__` returns `types.MethodType(f, obj)`;
that is what plain functions do, and also what decorator *objects* (memoisers, validators, ...) do.  CPython's
method_repr() does `getattr(f, '__qualname__')` and, failing that, `getattr(f, '__name__')` on the wrapped callable,
so an object the expression can reach has underscore attributes read without any underscore member access.
"""
import sys
import types
from graphtage.expressions import parse

READS = []


class Tripwired:
    def __getattribute__(self, name):
        if name.startswith('_'):
            READS.append(name)
        return object.__getattribute__(self, name)


class Memoized(Tripwired):
    """an ordinary decorator object: callable, binds like a function"""
    def __init__(self, func):
        object.__setattr__(self, 'func', func)

    def __call__(self, *args):
        return object.__getattribute__(self, 'func')(*args)

    def __get__(self, instance, owner):
        if instance is None:
            return self
        return types.MethodType(self, instance)


class Document:
    @Memoized
    def size(self, *args):
        return 3


def evaluate(expr):
    env = {'doc': Document()}
    del READS[:]
    try:
        r = parse(expr).eval(locals=env)
    except Exception as e:
        r = e
    return r, list(READS)


problems = []
# control: using the method reads nothing private
r, reads = evaluate("doc.size(1) == 3")
if reads or r is not True:
    print(f"(control unexpected: doc.size(1) == 3 -> {r!r}, reads {reads})")

for expr in ("str(doc.size)", "ascii([doc.size])", "'%s' % doc.size", "doc.size._x", "(doc.size) 1"):
    r, reads = evaluate(expr)
    if reads:
        problems.append(f"{expr!r} -> {str(r)[:60]!r}...; underscore attributes read: {reads}")

if problems:
    print("VIOLATION: evaluating a match expression read underscore attributes of the wrapped callable:")
    for p in problems:
        print("  -", p)
    sys.exit(1)
print("ok: no underscore attribute was read")
sys.exit(0)
