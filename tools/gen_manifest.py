#!/venv/bin/python
"""Regenerate /verif/MANIFEST.json from the table below (kept valid at all times; run after adding a check)."""
import json
import os
import subprocess

V = os.path.dirname(os.path.dirname(os.path.abspath(__file__)))

NOTE = ("Trusted base: CPython 3.12 semantics of the constructs modelled; the engine's own model of graphtage "
        "(class table, MRO, metaclass registries - cross-checked against the imported package in the thorough tier); "
        "third-party libraries (scipy, numpy, json, json5, yaml, plistlib, csv, xml.etree, intervaltree, tqdm) are "
        "assumed, not analysed; frozen idiom tables listed in DESIGN.md section 8.")

# Rules added after rounds 2 and 3 (DESIGN.md 10.9 / 10.10); appended to the level text of each entry.
ADDENDA = {
    "C01": "Added: (R01b) the shared-suffix scan is confined to what follows the shared prefix in both sequences; (R01h) no truthiness tests on nodes. Round 4: (E11) one-shot iterators are not re-walked in an outer loop. Hunting wave 3: recorded defects that also break this property are run here (R02h XML tail text, R02b, R02l, R03h, H13) and reported as known findings. Variants batch 4: (R01d) every keyed edit FixedKeyDictNode builds takes its sub-edits from the analysed partition _child_edits(); (R01b) where the trimming scans are written in a form the analysis does not read, side symmetry of the trimming region is decided instead.",
    "C02": "Added: (R02g) leaf equality keeps booleans and numbers apart; (R02h) every part of a parsed XML element (incl. tail text) reaches the tree - known finding; (R03a, uncounted sub-edits) every sub-edit a compound lists is counted by its bounds, also through constructor-cached cost fields; a second recogniser accepts the two-row form of the distance table. Round 3: (R02c3) the prefix and suffix trims of the string distance cannot overlap; R01b shared. Hunting wave 2: (R02j) csv.reader is fed a file opened with newline=''. Round 6: (E13b) no cost is memoised under a key that conflates 1, 1.0 and True. Hunting wave 3: (R02l) container equality keeps kinds apart - known; (R09b, R18a shared) a loader's wrapper or type erasure does not make unequal data equal - known.",
    "C03": "Added: (R03d) the bottom-right cell is exhausted before the path is reconstructed; (R03g) sizes bound the computed leaf costs (size-derived caps of compound edits are sound); (R03h) multiset leftovers are counted with multiplicity and the matcher keeps its assignment by position - known findings. Round 3: (R03i) the pairs trimmed as shared prefix/suffix are listed as literal zero-cost matches (they are outside the cost matrix). Hunting wave 2: R02f (zero-size nodes make the size-derived cap unsound) is shared - known findings. Round 6: (R07l, shared) the annotated tree of a comparison carries that comparison's edits only. Hunting wave 3: (R02f containers, R04i shared) - known. Variants batch 4: R03a follows helpers of bounds() along the MRO; population findings are reported on the whole selecting expression. Batch 5: R04d (shared) reads chained stores and stores in helpers of bounds().",
    "C04": "Added: (R04g) incomplete-matrix lower bound over two consecutive anti-diagonals; (R04h) the progress flag of EditDistance agrees with its interval, degenerate alignments are definitive; (R04i) EditCollection's cap-minus-improvements interval - known finding; R03d/R03g/R03h are shared. Round 3: R04i checks the exact slack formula; recorded findings are pinned to a digest of their construct, so an edit inside one is reported. Round 4 / wave 2: (R04j) numpy cost accumulators are 64-bit; R02f shared (unsound cap) - known findings. Round 5: (R04k) both ends of the search's interval stay inside the caller's initial bounds. Round 6: (R17g, shared) a falsy best candidate is not mistaken for none. Hunting wave 3: (R02f containers) empty containers have size 0 - known. Round 7: (R04m) the lazily expanded collection reports no progress only when exhausted; (R03a shared) the interval is computed from the sub-edits the script lists - known. Variants batch 4: R03a (shared) - a bounds() that switches formula with the refinement state is seen through inherited helpers; the digest of the recorded population finding covers pool and count. Batch 5: R04d reads chained stores and stores in helpers of bounds().",
    "C05": "Added: (R05d) edges are distinct before the matcher solves; (R05e) driver loops agree; (R05f) EditCollection.edits is re-entrant (yields by position); R03d/R03h shared. Round 3: R05c covers continue/break paths (a candidate is dropped only under strict domination). Hunting wave 3: (R04i, H13 shared) - known. Variants batch 5: R04d (shared) reads chained stores and stores in helpers of bounds().",
    "C06": "Added: (E5d) an edit is rendered once - same-node forwarding handlers pass with_edits=False where the protocol can select them for an item; R01b shared. Round 3: (E10b) rendering through sub-edits is selected by structure, never by a cost test; (R02c3) shared. Hunting wave 2: (E10c) literal marker characters in colourless output - known findings. Round 5: E10b also covers an edit handed to GraphtageFormatter.print explicitly. Hunting wave 3: (R02b shared) unequal leaves at cost 0 print without marks - known. Round 7: (E10d) items of a printed collection stay whole (explode_edits=False). Variants batch 4: R01b / R01d extensions shared with C01. Batch 5: E10b follows the source of the rendered sub-edits through helpers, methods of the edit and conditional expressions.",
    "C07": "Added: (R07d/e) no untyped or shared memo; (R07f) no default object repr reaches printed text or leaf costs; (R07g) process-wide installers (colorama.init) run at most once; (R07h) formatters restore the caller's printer; (R07i) builders for hash-ordered types canonicalise - known finding. Round 3: (R07j) no memoised function returns an object that is refined in place. Hunting wave 2: R07g also requires the process-wide colorama wrapper not to strip escapes. Round 5: (R07l) edited copies get fresh edit state after the wrapped node's attributes are copied; (E13) memo keys are complete. Hunting wave 3: (R07m) a loader's refusal does not print a hash-ordered object - known. Round 7: (R07n) no formatter flag is only ever set. Variants batch 5: R07a infers set-returning functions from their returns.",
    "C08": "Added: (R08d) no ordering comparison steers the pairing of unordered collections; (R08e) the order behind the canonical sort is total; R02b/R02f/R02g shared (swapping unequal list elements costs something). Round 3: R08e also requires natively equal values (True == 1) to share a rank class. Round 4: (E11) shared. Hunting wave 3: (R18a shared) distinct keys stay distinct nodes - known. Round 7: (R01c shared) a comparison does not consume the members it matched. Variants batch 4: R08c: an item picked by a running index (range / enumerate, loop or comprehension) is positional pairing. Batch 5: R08a covers cls(...) in other classmethods of the family and copy_from fills.",
    "C09": "Added: (R09e) loaders never branch on the truth value of a parsed document; (R09f) sibling loaders open their file in the same (binary) mode. Round 3: R09e classifies conditional expressions and and/or selections; R09a: the options handed to the builder are the caller's. Round 4: R09e covers comprehension filters and filter(None, ...). Round 5 / wave 2: (E12) ancestor sets of recursive builders are unwound on every exit; (R09g) node containers compare in linear time. Round 7: (E12b) a set that is only grown is not used to refuse repeat visits. Variants batch 4: E12 reads tracker objects (enter/leave methods), recursion through helpers, enters in inner blocks, and counts a removal only if it is unconditional or under the enter's own test. Batch 5: R09c: flags read by name and through property setters.",
    "C10": "Added: R10a is a whole-program census (every list node built on any path reachable from a file type's build_tree carries the list options; copies keep them); R02g shared. Round 4: (E11) one-shot iterators shared. Round 7: R01c: only key equality decides the pre-match. Variants batch 4: R01d fed-by-partition (shared); R10a: the recursive-options clause covers the module-level helpers a builder calls. Batch 5: R01a (shared): where edits() is unreadable, pairs are taken at one index.",
    "C12": "Added: (R12c) formatter state is reset between prints. Hunting wave 2: (R12d) empty containers have an explicit printed form in formats that read the empty document as null; (R12e) XML namespaces, (R12f) long YAML keys - known findings. Round 5: (E13) no value is cached under part of its inputs (a reused printer prints as a fresh one). Hunting wave 3: (R12g) the YAML scalar writer writes something on every path; (R12i) a format's root node prints itself through its formatter; (R12h) a line-terminated format is not given a second closing newline - known.",
    "C13": "Added: (E5c) no dispatch cycle; (H8) override compatibility; (H9) colour palettes; (H10) context managers release only what they acquired; (H11) leaf objects handed to library encoders are inside the encoder's type switch (read from the library source) - plist/null is a known finding; (H6) copy() while printing (XMLElement.copy_from) - known finding. Round 3: (H6b) copy_from adopts the copies it is given; H11 carries per-value domains of partial encoders. Round 4 / wave 2: (H9b) colour constants are inside the HTML printer's lookup domain; (H12) every edits() tests the kind of the other node, mappings require key/value members; (H13) bytes values - known findings. Round 5: E5c also treats `self.print(printer, node.edit)` as a re-dispatch on the same node. Round 6: H11 also reads encoder keywords that narrow the encoder's domain (allow_nan=False). Hunting wave 3: (R18d, R18i shared) builders' recorded defects that end a comparison in a traceback - known. Variants batch 4: E5c resolves the receiver of .print through properties and .root, the edit through locals, and reads `edit.print(self, printer)`. Batch 5: H10 treats releases registered as callbacks on entry like calls in __exit__.",
    "C14": "Added: (R14e) newline convention; (R14f) no import-time Printer becomes a colour printer through a writer that always claims a terminal (--color reaches redirected output). Round 4: (R14g) every build_tree_handling_errors returns self.build_tree(path, options) unchanged; R14a roles follow side-parametrised helpers. Variants batch 4: R14c analyses the decorators of get_filetype.",
    "C15": "Added: (R15b) the sentinel dominates the largest weight by construction; (R15c) every dtype returned is justified by the containment test on this call's arguments and the caller checks the integer range; (R15d) the empty-table answer precedes weight arithmetic; (R15f) numeric limits of the float64 solver and of the float sentinel - known findings. Round 3: role discovery follows locals and `is None` flags. Variants batch 4: R15a also where the solver is called in a helper: the rows of its answer are not thrown away. Batch 5: the weight table is bound once; a helper may not read weights back from the solver's array.",
    "C16": "Added: (R16h) the max-heap overrides every base method that takes a raw key. Hunting wave 2: (R16i) no heap method calls itself; (R16j) smallest/largest agree up to the heap class. Round 6: R16e: children of the extracted node lose their parent pointer when they become roots. Hunting wave 3: R16g: node comparisons other than < contain no equality test on keys.",
    "C17": "Added: (R17d) candidate heaps are cleared only where domination is established; (R17e) the search's goal branch reports progress, pruning against the caller's bounds is strict, make_distinct tightens until finite. Round 3: R17a checks the half-open interval encoding at every lookup; R17b/R01d are path-based. Round 4 / wave 2: R17a: nothing but the overlap test decides a re-insertion; (R17f) heap keys are refreshed after every tighten call. Round 5: R17a: every argument of make_distinct enters the interval tree. Round 6: (R17g) candidates are told from 'none yet' by identity, never by truth value.",
    "C18": "Added: (R18e) builders are stateless; (R18f) recursion keeps options; (R18g) leaf branches precede the key refusal in json.build_tree; (R18h) every concrete node class has structural __eq__/__hash__ (no identity comparison of payload wrappers); (R18i) hashable positions: ordering and hashability of container keys/members - known findings. Round 4 / wave 2: R18d: no operand of the leaf shortcut bypasses expand(); (R18k) cycle reports do not repr() the objects on the cycle; (R18l) constructors do not hash subtrees, (R18m) build_dict does not merge entries - known findings. Round 5: (E12) shared. Hunting wave 3: R18k: cycle messages use a size-bounded formatter. Variants batch 4: R18f covers builder helpers; E12 extensions shared. Batch 5: R18d: element-wise derived lists in the leaf test; identifier matching.",
    "C19": "Added: (R19c) the whitelist mapping is read-only; (R19f) get_member refuses members of interpreter objects (generators, frames, code, functions, modules) with a type()-based guard; (R19g) classes cannot be subscripted; (R19h) no public node method exports the instance dict to live-node evaluation - known finding. Round 3: R19a requires the guarded name to be the very value used for the access; R19c judges get_value as a whole. Hunting wave 2: (R19i) no isinstance() on evaluated values, raw subscripts go through get_item; (R19j) words are names, not float literals; R19e operators with interpreter-side reads - known findings. Round 5: R19c: eval()/get_value() keep no state on the Expression between evaluations. Hunting wave 3: R19e table extended (str.translate, property.getter, method repr) - known.",
    "C20": "Added: R20b also covers a frozen table of implicit raises (C code, unguarded parser state) and explicit raises of project functions reached while building the tree; (R20d) strict JSON constants - known finding. Round 3: (R20e) loaders parse the whole document (prefix parsers are followed by an end-of-input test). Round 4 / wave 2: implicit raises are keyed by parsing engine (pyexpat via ParserCreate); table entries for PyYAML's tagged-scalar constructors and plistlib dates. Variants batch 4: R20c: where main's loading is restructured, no value flowing from build_tree_handling_errors reaches a call on the logger.",
}

# id -> (technique, level text, design ref)
CHECKS = {
    "C05": ("typestate dataflow (abstract interpretation per class) + effect/dependence analysis on the AST",
            "Static analysis, deciding structural necessary conditions: (R05a) every dereference of a lazily freed field "
            "(EditDistance.edit_matrix/path_costs, EditCollection._edit_iter, IterativeTighteningSearch._unprocessed) is "
            "non-null on all paths under any order of public calls - this is the 'never raises an internal error under "
            "any driving order' clause and is decided for all interleavings, which no test can enumerate; (R05b) engine "
            "code that depends on printer/status state is effect-free; (R05c) one-shot iterators are replayable. Equality "
            "of final costs across interleavings is a statement about runtime values and is NOT decided.",
            "DESIGN.md section 4 C05, section 3 E2, Appendix B"),
    "C07": ("hash-order taint (set-typed expression -> order-sensitive sink), who-may-call with RTA call-graph "
            "reachability, effect analysis of stores on input-tree parameters",
            "Static analysis of the sources of nondeterminism and impurity, which are effects visible in the code: "
            "(R07a) no set/frozenset is iterated into an order-sensitive sink in code reachable from diff/print/CLI "
            "entry points - covers every hash seed, which no test varies; (R07b) id()/hash() ordering, random, time, "
            "uuid are unreachable from those entry points; (R07c) diff/print-phase code performs no store rooted at an "
            "input-tree parameter, TreeNode methods do not write self outside construction, and the _parent "
            "save/restore is paired in a finally. Byte equality of whole outputs follows only under the assumption "
            "that third-party libraries are deterministic; that part is NOT decided.",
            "DESIGN.md section 4 C07, section 3 E3"),
    "C20": ("exception-discipline analysis: handler-cannot-raise rules on the AST, raise-set (frozen table + "
            "explicit-raise scan of parser sources) subset-of caught-set, guard/ordering check in main",
            "Static analysis of error discipline: (R20a) every except clause of each build_tree_handling_errors returns "
            "on all paths a message naming the file and cannot itself raise (no format spec on the exception object, "
            "attributes read exist on the caught class); (R20b) the caught classes cover the raise-set of the parser "
            "entry the loader calls, including UnicodeDecodeError for text-mode reads; (R20c) main tests each result "
            "with isinstance(str) before use, writes it to stderr and returns non-zero before any diff output, for "
            "both file positions. Which byte strings a third-party parser rejects and implicit exceptions raised "
            "inside parsers (AttributeError, RecursionError) are NOT decided.",
            "DESIGN.md section 4 C20, section 3 E8"),
    "C14": ("two-role def-use taint in main (from/to), finite evaluation of the option logic over the argparse "
            "spec (truth tables of AST expressions), dominance checks in get_filetype",
            "Static analysis; this property is almost entirely structural. (R14a) role separation: every value that "
            "selects, parses or reports the second file derives only from --to-*/TO_PATH options and symmetrically for "
            "the first, at the get_filetype / build_tree_handling_errors / diff sinks and in the error branches; (R14b) "
            "alias equivalence decided exhaustively by evaluating main's option logic over its finite flag domain "
            "(-k == --dict-strategy none, default == auto, the three strategies' documented meaning, -j == -jl -jd, "
            "--from-TYPE/--to-TYPE == --from-mime/--to-mime with that type's MIME string); (R14c) get_filetype consults "
            "the path only when no MIME type is given and writes no module state; (R14d) main applies no CLI-only "
            "transformation to the trees, selects the formatter as documented, and every option has an effect. Byte "
            "equality of CLI and library text below Printer.write (status-line buffering) is NOT decided.",
            "DESIGN.md section 4 C14, section 3 E6/E7"),
    "C13": ("static simulation of the formatting protocol (port of _get_formatter over the statically built "
            "sub-formatter trees and registration order), ownership/freshness analysis of node constructor arguments "
            "in print-phase code (call graph with RTA, typed receivers), receiver/attribute existence checks",
            "Static analysis over all 8 input types x 8 output formats x output modes at once: (E5) every (default "
            "formatter, node class / Edited variant / edit class) cell of the dispatch table resolves to a handler or a "
            "concrete fallback; and no function reachable while printing contains a hazard: (H1) re-parenting - a node "
            "constructor (which sets child.parent) receiving an existing node instead of a fresh one or a copy; (H2) an "
            "unconditionally raising handler; (H3) a missing attribute on a statically known receiver (colorama "
            "constants, self/parent formatter methods); (H4) self.parent chains deeper than the formatter's tree "
            "position or sub_formatters[i] out of range; (H7) a default formatter instance that cannot exist. "
            "Value-dependent failures inside third-party encoders are NOT decided.",
            "DESIGN.md section 4 C13, section 3 E4/E5"),
    "C03": ("sibling-agreement analysis of compound edits: source sets of bounds()/edits() extracted by def-use and "
            "compared; structural check of the alignment-matrix accumulation; cache-discipline dominance check",
            "Static analysis (E1): for each of the 9 compound-edit implementations, what bounds() adds up is compared "
            "with what edits() lists - same attribute/collection sources, same constant-edit populations without "
            "partial selection, same None-guards (R03a); the alignment matrix accumulates costs[pred] + "
            "step.bounds().upper_bound for exactly the (pred, step) it returns and reports the last cell (R03b); the "
            "three views read the script only through edit_list / edits() / on_diff recursion (R03c); bounds caches "
            "store only definitive intervals (R04d, shared with C04). Numeric equality inside third-party matching "
            "and numpy accumulation is NOT decided.",
            "DESIGN.md section 4 C03, section 3 E1"),
    "C04": ("sibling-agreement (bounds vs tighten_bounds sources), all-paths return analysis, ownership/freshness of "
            "written Ranges, dominance of caching stores by .definitive()",
            "Static analysis of structural NECESSARY conditions only: (R04a) every non-constant part bounds() adds is "
            "refined by tighten_bounds(); (R04b) all 17 tighten_bounds implementations return a boolean on every path "
            "(the dead partial Karp implementation is exempt by call-graph unreachability); (R04c) in-place writes to "
            ".lower_bound/.upper_bound only hit Ranges fresh in the same function; (R04d) only definitive intervals are "
            "cached; (R04e) repeat_until_tightened reports progress only for a shrunk or definitive interval. That "
            "intervals never widen, contain the final cost and converge in finitely many steps are statements about "
            "runtime numbers and are NOT decided by this check.",
            "DESIGN.md section 4 C04"),
    "C01": ("abstract evaluation of slice bounds as linear forms in len() terms; table agreement between the cell writer "
            "and the step reader of the alignment matrix; set-algebra shape, yield-count path analysis and same-slot "
            "def-use checks on compound-edit constructors; on_diff resolution through the MRO",
            "Static analysis of the PARTITION SHAPE of every compound edit - each from-side element consumed by exactly one "
            "emitted sub-edit and each to-side element by exactly one - which is decided for all inputs and options at "
            "once: (R01a) the positional edit removes/inserts exactly children[min(n,m):] and pairs zip(from, to); (R01b) "
            "the alignment matrix's cell->edit table and step table agree, the back-trace walks from the last cell to the "
            "origin, trimming is symmetric and re-emitted in order (any monotone path of coherent steps is a valid "
            "partition, so for list scripts these conditions are also sufficient); (R01c) multiset partition T-F / F-T / "
            "F&T and pre-match bookkeeping; (R01d) keyed partition with exactly one emission per pair on every path; "
            "(R01e) same-slot pairing and component coverage; (R01f) on_diff coverage of all 17 concrete edit classes; "
            "(R01g) diff pushes the refined script. That equal-looking elements are the right ones to pair (values) and "
            "the third-party assignment are NOT decided.",
            "DESIGN.md section 4 C01"),
    "C10": ("def-use/keyword analysis of node constructor sites in the builders, finite evaluation (truth table) of the "
            "selection guard in ListNode.edits and of main's flag logic, guard dominance on KeyValuePairEdit sites, "
            "symbolic slice evaluation",
            "Static analysis: (R10a) every document list a loader/builder constructs receives both list options from the "
            "options object, mappings are selected by allow_key_edits with auto_match_keys set, recursive build calls keep "
            "the options, and main maps -l/-ll/-k/--dict-strategy to BuildOptions with the documented polarity (evaluated "
            "exhaustively); (R10b) the guard in ListNode.edits is evaluated over all flag settings x lengths 0..3 and "
            "selects the positional edit exactly when list edits are off; (R10c=R01a) only a surplus tail is removed or "
            "inserted; (R10d, R01c, R01d) differing keys are paired only under allow_key_edits, `none` looks partners up "
            "by the same key, `auto` pre-matches by key equality without skipping candidates. Which pairs the assignment "
            "picks among the allowed ones is NOT decided.",
            "DESIGN.md section 4 C10"),
    "C02": ("guard-dominance analysis of zero-cost Match sites, projection agreement between cost and __eq__, index "
            "def-use in the DP routine, status-flag dataflow in main, positivity analysis of constant edit costs",
            "Static analysis of the structural clauses of 'zero cost iff equal': (R02a) all 16 literal-zero Match "
            "constructions are dominated by an equality test on the same operands (idiom table in the rule, one reviewed "
            "exception); (R02b) computed match costs use the projection __eq__ compares; (R02c) levenshtein_distance "
            "returns the dimension-indexed cell; (R02d) the exit status is 1 iff had_edits and each of the three output "
            "modes derives it from has_non_zero_cost() of what it printed; (R02e) node equality reads every component; "
            "(R02f) removal/insertion/replacement costs are positive wherever the penalty can be 0. Positivity of "
            "computed costs for arbitrary unequal values is NOT decided.",
            "DESIGN.md section 4 C02"),
    "C19": ("who-may-call / capability analysis of the expression evaluator: reflective-primitive census with guard "
            "dominance, operator-table inspection, name-resolution dataflow, whitelist set comparison against the "
            "documentation and a denylist, capability closure over reachable built-in types",
            "Static analysis; the property is a capability statement about code, so it is decided for every expression "
            "string at once: (R19a) getattr and all other reflective primitives occur only in get_member, dominated by "
            "`if name.startswith('_'): raise` on the same name, after the identifier-token type test; (R19b) the '.' "
            "operator executes exactly get_member with its right operand unexpanded and no other operator reads "
            "attributes; (R19c) identifiers resolve only through the supplied mappings with DEFAULT_GLOBALS the only "
            "default; (R19d) the whitelist equals the documented 35 names and contains no reflective built-in; (R19e) "
            "capability closure: public attribute-traversing methods of reachable built-in values (str.format/format_map) "
            "- a genuine leak on today's tree, recorded as a known finding. Objects the caller places in the environment "
            "may expose further traversing methods; out of scope.",
            "DESIGN.md section 4 C19"),
    "C18": ("table agreement between the two builders' type dispatch, value-vs-node analysis of to_obj/items, "
            "constructor-arity vs children()-shape comparison for copy_from, structural check of the cycle guard",
            "Static analysis: (R18a) json.build_tree's isinstance chain (bool before int) and BasicBuilder's registry map "
            "each shared Python type to the same node class and store scalars unchanged; (R18b) every container's "
            "to_obj() reaches children only through .to_obj() and items() overrides keep the (key, value) shape; (R18c) "
            "every node class relying on TreeNode.copy_from has an __init__ matching the shape of children(); (R18d) "
            "the iterative builder compares ancestors on its work stack by identity, over the whole stack, and raises or "
            "appends the placeholder on every path, and recursive builders are guarded. Equality of round-tripped "
            "values is NOT decided beyond these clauses.",
            "DESIGN.md section 4 C18"),
    "C15": ("def-use ordering and shape analysis of the assignment wrapper around the trusted solver; table comparison "
            "against numpy.iinfo",
            "Static analysis of NECESSARY conditions around scipy's solver (whose optimality is assumed): (R15a) the answer is "
            "built from both index arrays of the solver's result, reports weights[i][j] and drops sentinel pairs with a "
            "strict comparison; (R15b) the missing-pair sentinel exceeds every real total, is folded into max_edge before the "
            "dtype is chosen and is written into every missing cell before the solver call; (R15c) the integer dtype table "
            "matches numpy's real ranges, get_dtype tests lo <= min and max < hi, floats stay 64-bit; (R15d) every non-empty "
            "answer comes from the solver (no shortcut); (R15e) the solver minimises over the whole table. Optimality and "
            "one-to-one-ness themselves are delegated to scipy and NOT decided.",
            "DESIGN.md section 4 C15"),
    "C16": ("effect/pairing analysis of the heap's size counter, minimum pointer and parent/mark bookkeeping; comparator "
            "mirror check",
            "THIN static check - structural necessary conditions only: (R16a) _n is incremented exactly on the path that "
            "links a node and decremented exactly once on the path that unlinks one, reset by clear, summed by merge, and "
            "is what len()/bool() report; (R16b) peek/pop discard lazily deleted minima first; (R16c) ReversedComparator "
            "mirrors the natural order; (R16e) every move into the root list clears the parent pointer and _link/_cut keep "
            "parent/mark/child lists paired; (R16f) the minimum pointer is updated by push, decrease_key, extract and "
            "consolidate; (R16g) node order and the decrease-only guard. Heap order after arbitrary operation histories - the "
            "heart of the property - is a runtime-shape property of a pointer structure; no shape analysis in reach proves "
            "it, and it is NOT decided.",
            "DESIGN.md section 4 C16"),
    "C17": ("boolean-structure analysis of the separation predicate, all-paths return analysis, guard checks on the "
            "search's answer methods, typestate of the exhausted-iterator field",
            "THIN static check - structural necessary conditions only: (R17a) make_distinct's pair loop exits exactly when "
            "both intervals are definitive or strictly disjoint, refines both each round, re-inserts an interval only while "
            "it overlaps, and encodes closed ranges as [lower, upper+1); (R17b) the search's tighten_bounds returns a "
            "boolean on every path, best_match/remove_best/goal_test answer none/no while candidates remain unprocessed, "
            "candidates taken from the iterator are retained, the iterator field is used only under a not-None guard, the "
            "search interval is [min live lower bound, best upper bound]; (R17c) Range.dominates/__lt__/definitive and the "
            "comparator's refinement loop. That the search ends with a minimum and terminates for every tightening schedule "
            "is NOT decided.",
            "DESIGN.md section 4 C17"),
    "C09": ("call-graph check that all four loaders share one constructor and pass options, return-class closure "
            "comparison, read/write set intersection for per-format presentation flags, two-role taint in main",
            "Static analysis: (R09a) the JSON, JSON5, YAML and plist loaders all build through json.build_tree and hand it "
            "the caller's options on every path; (R09b) each loader returns a node class json.build_tree can return - the "
            "plist wrapper violates this on today's tree (known finding); (R09c) flags that loaders set after construction "
            "(quoted) are read by no equality/hash/size/cost code; (R09d = R14a) the CLI selects each file's loader from "
            "that file's own options. How third-party parsers map the same data is NOT analysed.",
            "DESIGN.md section 4 C09"),
    "C08": ("construction-site census for mapping nodes, container/identity agreement per node class, absence of "
            "positional pairing in multiset/keyed edits, guard dominance for list zero-cost matches",
            "Static analysis: (R08a) DictNode.from_dict sorts the pairs and every other DictNode-family construction goes "
            "through from_dict (two reviewed exceptions), so the internal order never follows the document's key order; "
            "(R08b) multisets/mappings store children in an order-insensitive container with container equality and a "
            "commutative hash, lists store a tuple, pairs sort by (key, value); (R08c) multiset and keyed edits never pair "
            "the two sides by position, and a list gets a zero-cost match only under tuple equality. Tie-breaking among "
            "equal-cost assignments inside the solver is NOT decided.",
            "DESIGN.md section 4 C08"),
    "C06": ("mark-polarity analysis of all mark contexts (which side's content is printed inside which mark), "
            "sanitiser/escape dataflow for the JSON formatter, path check that pending runs are flushed",
            "Static analysis of NECESSARY conditions: (E10) in every mark context of Match/Replace/Remove/Insert.print, the "
            "string-edit printer and the sequence delimiter printer, removal marks (strike / red) enclose only from-side "
            "content and insertion marks (under-plus / green) only to-side content; plain-text ~~/++ markers bracket their "
            "content; a zero-cost match prints unmarked; both pending character runs are flushed before the closing quote; "
            "(E9) every string character passes escape() = json.dumps(c)[1:-1] on every path and every other leaf is "
            "json.dumps(node.object) on every path; (R01a/R01d) the scripts the marks are drawn from are complete. That the "
            "rendered text actually parses back to the two documents is a property of output values and is NOT decided.",
            "DESIGN.md section 4 C06, section 3 E9/E10"),
    "C12": ("sanitiser dataflow for the JSON and CSV leaf encoders; static simulation of the formatting protocol restricted "
            "to each format's own loader classes",
            "Static analysis of NECESSARY conditions: (E9) JSON and CSV leaf content reaches printer.write only through the "
            "format's own encoder (json.dumps / csv.writer with only the row terminator stripped) and string characters "
            "through escape(); (E5-own) for each of the 7 text formats every node class its own loader can produce resolves, "
            "under that format's default formatter, to a handler inside that formatter's own tree (60 cells), never to a "
            "foreign format's handler or node.print. The round trip itself over Unicode, numbers and nesting is NOT decided.",
            "DESIGN.md section 4 C12"),
}

NOT_YET = "check not built yet in this session (static rules designed in DESIGN.md; will be claimed once the rule runs clean)"
NA = {
    "C11": "numeric optimality over all alignments (LCS minimality): no code-shape clause is a necessary condition, "
           "and matching the recurrence against a reference would be a frozen-fragment proxy; static analysis cannot "
           "decide it (DESIGN.md section 4, C11)",
}


def main():
    props = [json.loads(l)["id"] for l in open(os.path.join(V, "properties.jsonl"))]
    checks = []
    for pid in props:
        if pid not in CHECKS or not os.path.exists(os.path.join(V, "gtstatic", "rules", f"{pid.lower()}.py")):
            continue
        tech, text, ref = CHECKS[pid]
        checks.append({
            "property_id": pid,
            "quick_cmd": f"./check {pid} --tier quick",
            "thorough_cmd": f"./check {pid} --tier thorough",
            "evidence_file": f"/verif/evidence/{pid}.json",
            "replay_cmd_template": "./check --replay {path}",
            "engine": "gtstatic",
            "level_claimed": {"category": "other", "text": text + (" " + ADDENDA[pid] if pid in ADDENDA else ""),
                              "design_ref": ref + "; section 10 (as built, rounds 2-4, hunting waves, refactoring waves)"},
            "level_note": NOTE,
            "technique": "static analysis: " + tech,
        })
    claimed = {c["property_id"] for c in checks}
    na = []
    for pid in props:
        if pid in claimed:
            continue
        na.append({"property_id": pid, "reason": NA.get(pid, NOT_YET)})
    fixes = subprocess.run(["git", "-C", "/repo", "log", "--format=%h %s", "--grep=^fix:"], capture_output=True,
                           text=True).stdout.strip().splitlines()
    man = {
        "version": 1,
        "setup_cmd": "true",
        "hooks": {
            "guard": "GRAPHTAGE_VERIF",
            "enable": "no hooks: the analysis reads /repo's source and instruments nothing; the guard is unused",
            "baseline_off_cmd": "cd /repo && /venv/bin/python -m pytest -ra -q -p no:cacheprovider --timeout=900 "
                                "--continue-on-collection-errors",
            "source_commits": [],
            "add_only": True,
        },
        "engines": [{
            "name": "gtstatic", "path": "/verif/gtstatic",
            "serves_properties": sorted(claimed),
            "kind_free_text": "repository-specific static analyser (pure stdlib `ast`): program model with class "
                              "hierarchy/MRO/registries, syntax-directed abstract interpretation, dominance and "
                              "def-use rules, static simulation of the formatting protocol; thorough tier adds a "
                              "seeded-mutant self-validation battery and a model cross-check",
        }],
        "checks": checks,
        "not_applicable": na,
        "notes": "All checks decide by static analysis of /repo's working tree on every run (exit 0/1, exit 2 = "
                 "analysis broken, never a verdict). Genuine defects repaired in /repo as unguarded 'fix:' commits: "
                 + "; ".join(fixes) + ". Known findings and fixed entries: /verif/known_findings.json.",
    }
    with open(os.path.join(V, "MANIFEST.json"), "w") as f:
        json.dump(man, f, indent=1)
    print(f"claimed {sorted(claimed)}; not_applicable {[x['property_id'] for x in na]}")


if __name__ == "__main__":
    main()
