"""C18 witness: a deeply nested (acyclic!) list cannot be converted, although Builder.build_tree walks the
object iteratively: every ListNode constructor re-hashes its whole subtree recursively."""
import sys

from graphtage import BuildOptions
from graphtage.builder import BasicBuilder
from graphtage import pydiff

DEPTH = 1500  # well within what Python itself, json.loads() etc. can hold


def nest(kind):
    obj = 1
    for _ in range(DEPTH):
        if kind == "list":
            obj = [obj]
        elif kind == "tuple":
            obj = (obj,)
        else:
            obj = {"k": obj}
    return obj


def depth_of(tree):
    d = 0
    while not tree.is_leaf:
        kids = tree.children()
        if not kids:
            break
        tree = kids[-1]   # for a KeyValuePairNode this is the value
        d += 1
    return d


failures = []
for kind in ("dict", "list", "tuple"):
    obj = nest(kind)
    for name, build in (("BasicBuilder", lambda o: BasicBuilder(BuildOptions()).build_tree(o)),
                        ("pydiff.build_tree", lambda o: pydiff.build_tree(o))):
        try:
            tree = build(obj)
            copied = tree.copy()     # TreeNode.copy() is iterative as well
            print(f"ok   {name}: {DEPTH}-deep {kind} nesting -> tree of depth {depth_of(tree)}, "
                  f"copy of depth {depth_of(copied)}")
        except RecursionError as e:
            failures.append(f"FAIL {name}: {DEPTH}-deep {kind} nesting raised RecursionError ({e})")
        except Exception as e:  # something unrelated to this witness
            print(f"unexpected {type(e).__name__}: {e}")
            sys.exit(2)

if failures:
    print("\n".join(failures))
    print("An acyclic structure of lists was not converted (dict nesting of the same depth is).")
    sys.exit(1)
sys.exit(0)
