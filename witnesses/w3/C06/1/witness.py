"""C06 witness: a number/boolean and the string spelling it ("1" vs 1, 1.5 vs "1.5", true vs "True") are matched at
cost 0, so the JSON rendering of the diff carries no change mark and shows only one of the two documents."""
import io
import json
import sys

import graphtage
import graphtage.printer
from graphtage import json as gjson
from graphtage.printer import Printer

graphtage.printer.DEFAULT_PRINTER.quiet = True

STRATEGIES = {
    'auto': dict(allow_key_edits=True, auto_match_keys=True),
    'match': dict(allow_key_edits=True, auto_match_keys=False),
    'none': dict(allow_key_edits=False, auto_match_keys=False),
}


def render(a, b, color, strategy, join):
    opts = graphtage.BuildOptions(**STRATEGIES[strategy])
    diff = gjson.build_tree(a, opts).diff(gjson.build_tree(b, opts))
    out = io.StringIO()
    p = Printer(out_stream=out, ansi_color=color, quiet=True, options={'join_lists': join, 'join_dict_items': join})
    with p:
        gjson.JSONFormatter.DEFAULT_INSTANCE.print(p, diff)
    return out.getvalue()


PAIRS = [
    ([1], ["1"]),
    (["1"], [1]),
    (1, "1"),
    ({"b": 1}, {"b": "1"}),
    ([1.5, "x"], ["1.5", "x"]),
    ({"k": True}, {"k": "True"}),
    ([[0, 1, 2]], [[0, "1", 2]]),
]

failures = []
for a, b in PAIRS:
    assert json.loads(json.dumps(a)) != json.loads(json.dumps(b))
    for color in (True, False):
        for strategy in STRATEGIES:
            for join in (False, True):
                text = render(a, b, color, strategy, join)
                same_as_a = text == render(a, a, color, strategy, join)
                same_as_b = text == render(b, b, color, strategy, join)
                if same_as_a or same_as_b:
                    which = "first" if same_as_a else "second"
                    failures.append(
                        f"{json.dumps(a)} vs {json.dumps(b)} (color={color}, strategy={strategy}, join={join}): the "
                        f"rendered diff is byte-identical to the rendering of the unchanged {which} document "
                        f"({text!r}): no change marks although the documents differ, and the other document cannot be "
                        f"read back")

if failures:
    print(f"{len(failures)} violations; first ones:")
    for f in failures[:6]:
        print(" -", f)
    sys.exit(1)
print("ok")
sys.exit(0)
