"""C14 witness 1: a type-selection option placed between the two paths makes the command fail.

`graphtage --from-json a.txt --to-json b.txt` (and `graphtage a.txt --to-json b.txt`, `graphtage a.json -k b.json` ...)
must behave exactly like `graphtage --from-json --to-json a.txt b.txt`.
"""
import os
import subprocess
import sys
import tempfile


def run(args, cwd):
    p = subprocess.run([sys.executable, '-m', 'graphtage', '--no-status'] + args, cwd=cwd, capture_output=True,
                       stdin=subprocess.DEVNULL, env=os.environ)
    return p.returncode, p.stdout.decode('utf-8', 'replace'), p.stderr.decode('utf-8', 'replace')


def main():
    with tempfile.TemporaryDirectory() as d:
        with open(os.path.join(d, 'a.txt'), 'w') as f:
            f.write('{"a": [1, 2], "b": "x"}')
        with open(os.path.join(d, 'b.txt'), 'w') as f:
            f.write('{"a": [1, 3], "c": "x"}')
        with open(os.path.join(d, 'a.json'), 'w') as f:
            f.write('{"a": [1, 2], "b": "x"}')
        with open(os.path.join(d, 'b.json'), 'w') as f:
            f.write('{"a": [1, 3], "c": "x"}')
        ref = run(['--from-json', '--to-json', 'a.txt', 'b.txt'], d)
        if ref[0] != 1 or '"a"' not in ref[1]:
            print("reference invocation did not produce a diff; cannot judge:", ref)
            return 0
        failures = []
        for args in (
                ['--from-json', 'a.txt', '--to-json', 'b.txt'],
                ['a.txt', '--to-json', 'b.txt', '--from-json'],
                ['--from-mime', 'application/json', 'a.txt', '--to-mime', 'application/json', 'b.txt'],
        ):
            got = run(args, d)
            if got[:2] != ref[:2]:
                failures.append((args, got))
        # the same happens with any other option between the paths
        ref2 = run(['-k', 'a.json', 'b.json'], d)
        got2 = run(['a.json', '-k', 'b.json'], d)
        if got2[:2] != ref2[:2]:
            failures.append((['a.json', '-k', 'b.json'], got2))
        if failures:
            print(f"reference (`--from-json --to-json a.txt b.txt`): exit status {ref[0]}, stdout:\n{ref[1]}")
            for args, got in failures:
                last = got[2].strip().splitlines()[-1] if got[2].strip() else ''
                print(f"VIOLATION: `graphtage {' '.join(args)}` -> exit status {got[0]}, stdout {got[1]!r}, "
                      f"stderr ends with: {last!r}")
            return 1
    print("ok: options between the two paths are accepted")
    return 0


if __name__ == '__main__':
    sys.exit(main())
