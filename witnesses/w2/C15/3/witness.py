"""WeightedBipartiteMatcher fixes the assignment on the UPPER bounds of not yet definitive edges; once the edges are
tightened to their true values the chosen pairing is not the minimum one."""
import itertools, sys
from graphtage.bounds import Bounded, Range
from graphtage.matching import WeightedBipartiteMatcher


class Shrinking(Bounded):
    """an honest Bounded: the range only ever shrinks, towards `final`"""
    def __init__(self, lo, hi, final):
        assert lo <= final <= hi
        self.lo, self.hi, self.final = lo, hi, final
    def bounds(self):
        return Range(self.lo, self.hi)
    def tighten_bounds(self):
        if self.lo < self.final:
            self.lo += 1
        elif self.hi > self.final:
            self.hi -= 1
        else:
            return False
        return True
    def __repr__(self):
        return f"[{self.lo},{self.hi}]->{self.final}"


def table():
    # the four ranges are pairwise disjoint already, so make_distinct() has nothing to do
    return [[Shrinking(0, 5, 0),    Shrinking(6, 10, 10)],
            [Shrinking(11, 19, 19), Shrinking(20, 30, 20)]]

problems = []
for order in ("tighten_bounds loop", "matching first"):
    E = table()
    m = WeightedBipartiteMatcher([0, 1], [0, 1], lambda f, t: E[f][t])
    if order == "matching first":
        _ = m.matching
    while m.tighten_bounds():
        pass
    final = m.bounds()
    pairs = {f: t for f, (t, _) in m.matching.items()}
    true = [[e.final for e in row] for row in E]
    best = min(sum(true[i][p[i]] for i in range(2)) for p in itertools.permutations(range(2)))
    got = sum(true[f][t] for f, t in pairs.items())
    if not final.definitive() or final.upper_bound != got:
        problems.append(f"[{order}] final bounds {final} do not equal the weight {got} of the reported pairing")
    if got != best:
        problems.append(f"[{order}] reported pairing {pairs} weighs {got} (bounds {final}); the minimum is {best} (true table {true})")

# end to end with real graphtage edits (string edits are lazily bounded): {'aabaabba','a'} -> {'aaa','bbbbbba'}
try:
    from graphtage import MultiSetNode, StringNode
    def full(e):
        while e.tighten_bounds():
            pass
        return e.bounds().upper_bound
    A, B = ['aabaabba', 'a'], ['aaa', 'bbbbbba']
    got = full(MultiSetNode([StringNode(a) for a in A]).edits(MultiSetNode([StringNode(b) for b in B])))
    W = [[full(StringNode(a).edits(StringNode(b))) for b in B] for a in A]
    best = min(sum(W[i][p[i]] for i in range(2)) for p in itertools.permutations(range(2)))
    if got != best:
        problems.append(f"[multiset diff] {A} -> {B} costs {got}; pairwise edit costs {W} allow {best}")
except ImportError:
    pass

if problems:
    print("VIOLATION: WeightedBipartiteMatcher result is not the minimum-weight assignment")
    for p in problems:
        print("  " + p)
    sys.exit(1)
print("ok")
