"""C01 witness 3: in a plist diff a renamed dictionary key is part of the edit script (a KeyValuePairEdit whose key
edit has a positive cost) but the report prints the OLD key verbatim and never mentions the new one."""
import io
import os
import plistlib
import sys
import tempfile

from graphtage import BuildOptions, plist as gplist
from graphtage.graphtage import KeyValuePairEdit
from graphtage.printer import DEFAULT_PRINTER, Printer

DEFAULT_PRINTER.quiet = True


def build(obj, options):
    with tempfile.NamedTemporaryFile(suffix='.plist', delete=False) as f:
        f.write(plistlib.dumps(obj))
    try:
        return gplist.PLIST.default_instance.build_tree(f.name, options)
    finally:
        os.unlink(f.name)


def compound_edits(edit):
    yield edit
    if hasattr(edit, 'edits'):
        for sub in edit.edits():
            yield from compound_edits(sub)


first = {'same': 1, 'oldkeyname': [7, 8, 9]}
second = {'same': 1, 'newkeyname': [7, 8, 9]}

failures = []
for name, opts in (("auto", dict()), ("match", dict(auto_match_keys=False))):
    d = build(first, BuildOptions(**opts)).diff(build(second, BuildOptions(**opts)))
    # (d.edit_list, not d.edit: the zero-cost Match that PLISTNode.edits() puts in front overwrites d.edit)
    key_edits = [e for top in d.edit_list for e in compound_edits(top)
                 if isinstance(e, KeyValuePairEdit) and e.key_edit.bounds().lower_bound > 0]
    if not key_edits:
        print(f"note: strategy {name}: the differ did not choose a key edit here")
    out = io.StringIO()
    gplist.PLISTFormatter.DEFAULT_INSTANCE.print(Printer(out_stream=out, ansi_color=False, quiet=True), d)
    text = out.getvalue()
    body = ' '.join(text[text.find('<dict>'):].split())
    # "oldkeyname" -> "newkeyname" differ in their first three characters; any rendering of the key edit has to show "new"
    if key_edits and 'new' not in text:
        failures.append(f"strategy {name}: the edit script renames the key "
                        f"({key_edits[0].from_node.key.object!r} -> {key_edits[0].to_node.key.object!r}, cost "
                        f"{key_edits[0].key_edit.bounds().lower_bound}) but the report is {body!r}: the new key is not shown "
                        f"and nothing is marked as changed")

if failures:
    print("VIOLATION: a changed mapping key of the second document is missing from the plist report")
    for f in failures:
        print(" -", f)
    sys.exit(1)
print("ok")
sys.exit(0)
