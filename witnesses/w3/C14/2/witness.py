"""C14: `--from-TYPE` / `--to-TYPE` must behave exactly like `--from-mime` / `--to-mime` with that type's MIME string,
for every registered Filetype (subclassing graphtage.Filetype registers the type with the command line).

main() creates the option `--from-<name>` (argparse stores it under dest `from_<name with - replaced by _>`) but reads it
back with getattr(args, f'from_{name}').  For a registered type whose name contains a hyphen the two differ: main()
raises AttributeError - for `--from-json-lines`, and even when no type option at all is given (the lookup loop then
visits every registered name), so the mere registration breaks `graphtage a.json b.json`.
"""
import io
import json
import os
import sys
import tempfile

import graphtage
from graphtage import Filetype
from graphtage import json as gjson
from graphtage.__main__ import main

MIME = 'application/x-json-lines'


class JSONLines(Filetype):
    def __init__(self):
        super().__init__('json-lines', MIME)

    def build_tree(self, path, options=None):
        with open(path) as f:
            return gjson.build_tree([json.loads(line) for line in f if line.strip()], options)

    def build_tree_handling_errors(self, path, options=None):
        try:
            return self.build_tree(path, options)
        except ValueError as e:
            return f'Error parsing {os.path.basename(path)}: {e}'

    def get_default_formatter(self):
        return gjson.JSONFormatter.DEFAULT_INSTANCE


class Capture(io.StringIO):
    def close(self):  # main() closes its output stream
        pass


def run_cli(argv):
    out, err = Capture(), Capture()
    old = sys.stdout, sys.stderr
    sys.stdout, sys.stderr = out, err
    try:
        try:
            rc = main(['graphtage', '--no-status', '--no-color', '-j'] + argv)
        except SystemExit as e:
            rc = f'SystemExit({e.code})'
        except Exception as e:
            rc = f'{type(e).__name__}: {e}'
    finally:
        sys.stdout, sys.stderr = old
    return out.getvalue(), rc


_TMP = []


def main_():
    assert graphtage.FILETYPES_BY_TYPENAME['json-lines'].default_mimetype == MIME
    d = tempfile.mkdtemp()
    _TMP.append(d)
    p1, p2 = os.path.join(d, 'a.txt'), os.path.join(d, 'b.txt')
    with open(p1, 'w') as f:
        f.write('{"a": 1}\n{"b": 2}\n')
    with open(p2, 'w') as f:
        f.write('{"a": 1}\n{"b": 3}\n')
    j1, j2 = os.path.join(d, 'a.json'), os.path.join(d, 'b.json')
    with open(j1, 'w') as f:
        f.write('[1, 2]')
    with open(j2, 'w') as f:
        f.write('[1, 3]')

    problems = []
    by_mime = run_cli(['--from-mime', MIME, '--to-mime', MIME, p1, p2])
    by_name = run_cli(['--from-json-lines', '--to-json-lines', p1, p2])
    if by_mime != by_name:
        problems.append(f"--from-mime/--to-mime {MIME}: {by_mime!r}\n   --from-json-lines/--to-json-lines: {by_name!r}")
    mixed = run_cli(['--from-json-lines', '--to-mime', MIME, p1, p2])
    if by_mime != mixed:
        problems.append(f"--from-json-lines --to-mime {MIME}: {mixed!r} (expected {by_mime!r})")
    # the built-in types are affected as soon as the type is registered
    plain = run_cli([j1, j2])
    explicit = run_cli(['--from-mime', 'application/json', '--to-mime', 'application/json', j1, j2])
    if plain != explicit:
        problems.append(f"a.json b.json without type options: {plain!r}\n   with --from-mime/--to-mime application/json: "
                        f"{explicit!r}")
    if problems:
        print("VIOLATION: a registered file type whose name contains '-' breaks the --from-TYPE/--to-TYPE spelling:")
        for p in problems:
            print(" -", p)
        return 1
    print("ok")
    return 0


if __name__ == '__main__':
    rc = main_()
    sys.stdout.flush()
    import shutil
    for _d in _TMP:
        shutil.rmtree(_d, ignore_errors=True)
    os._exit(rc)
