"""E13 - a memo is keyed by everything its value depends on.

`self._cache[K] = V` on an object whose other attributes can change: if V is computed from attributes of `self` that are
not part of K, the first value computed for K is served for ever - a printer that memoises `indent_str * indents` by
`indents` alone keeps the four-space indentation of the JSON document it printed first when a YAML formatter switches it
to two spaces.
"""
import ast

from .astx import walk_no_nested, self_attr, dotted, _set_parents
from .core import Inconclusive

POSITIVE = """
class P:
    def pad(self):
        s = self._cache.get(self.level)
        if s is None:
            s = self.unit * self.level
            self._cache[self.level] = s
        return s
"""
NEGATIVE = """
class P:
    def pad(self):
        key = (self.unit, self.level)
        s = self._cache.get(key)
        if s is None:
            s = self.unit * self.level
            self._cache[key] = s
        return s
"""


def _self_attrs(e, exclude=()):
    return {self_attr(x) for x in ast.walk(e) if isinstance(x, ast.Attribute) and self_attr(x) and self_attr(x) not in exclude
            and isinstance(getattr(x, "ctx", None), ast.Load)}


def scan(fn, mutable=None):
    """[(verdict, store node, cache attr, missing attrs)] for every `self.C[K] = V` in method fn."""
    out = []
    assigns = {}
    for a in walk_no_nested(fn):
        if isinstance(a, (ast.Assign, ast.AnnAssign)) and a.value is not None:
            t = a.targets[0] if isinstance(a, ast.Assign) else a.target
            if isinstance(t, ast.Name):
                assigns.setdefault(t.id, []).append(a.value)
    for a in walk_no_nested(fn):
        if not (isinstance(a, ast.Assign) and isinstance(a.targets[0], ast.Subscript) and self_attr(a.targets[0].value)):
            continue
        cache = self_attr(a.targets[0].value)
        key = a.targets[0].slice
        # memo shape only: the store happens on a miss - under a test that reads the same cache (`x = self.C.get(K)` ... `if x is
        # None:`, `if K not in self.C:`) or in a KeyError handler; any other keyed store is ordinary state, not a memo
        from .astx import dominating_conditions, flatten_conditions, ancestors
        miss = False
        for t, pol in flatten_conditions(dominating_conditions(a)):
            names = {x.id for x in ast.walk(t) if isinstance(x, ast.Name)}
            reads_cache = any(isinstance(y, ast.Attribute) and self_attr(y) == cache for y in ast.walk(t)) or any(
                any(isinstance(y, ast.Attribute) and self_attr(y) == cache for v in assigns.get(nm, ()) for y in ast.walk(v)) for nm in names)
            if reads_cache:
                miss = True
        if any(isinstance(h, ast.ExceptHandler) and h.type is not None and "KeyError" in ast.unparse(h.type) for h in ancestors(a)):
            miss = True
        if not miss:
            continue

        def expand(e, depth=0):
            attrs = _self_attrs(e, exclude=(cache,))
            if depth < 3:
                for x in ast.walk(e):
                    if isinstance(x, ast.Name) and x.id in assigns:
                        for v in assigns[x.id]:
                            # reads of the cache itself are not inputs of the value
                            if any(isinstance(y, ast.Attribute) and self_attr(y) == cache for y in ast.walk(v)):
                                continue
                            attrs |= expand(v, depth + 1)
            return attrs
        # method calls on self make the value depend on unknown state: not decided
        if any(isinstance(x, ast.Call) and isinstance(x.func, ast.Attribute) and isinstance(x.func.value, ast.Name) and x.func.value.id == "self"
               for v in [a.value] for x in ast.walk(v)):
            continue
        v_attrs, k_attrs = expand(a.value), expand(key)
        if not v_attrs:
            continue
        missing = sorted(v_attrs - k_attrs)
        if mutable is not None:
            missing = [x for x in missing if x in mutable]      # attributes fixed at construction cannot go stale
        out.append(("bad" if missing else "ok", a, cache, missing))
    return out


def e13(ctx):
    m = ctx.model
    ctx.rule("E13", "memo keys are complete: where a method stores `self.<cache>[K] = V`, every attribute of self that V is computed "
                    "from appears in K (a value cached under part of its inputs is served stale when the rest changes: formatters "
                    "switch a printer's indent_str between documents)")
    pos = scan(_set_parents(ast.parse(POSITIVE)).body[0].body[0])
    neg = scan(_set_parents(ast.parse(NEGATIVE)).body[0].body[0])
    if [v for v, *_ in pos] != ["bad"] or [v for v, *_ in neg] != ["ok"]:
        raise Inconclusive(f"E13 self-test: embedded examples judged {[v for v, *_ in pos]} / {[v for v, *_ in neg]}")
    # attribute names that are assigned somewhere outside a constructor (on self or on any other object: `printer.indent_str = ...`)
    mutable = set()
    for fq, f in m.functions.items():
        for x in walk_no_nested(f.node):
            if isinstance(x, ast.Attribute) and isinstance(x.ctx, ast.Store) and not (f.node.name == "__init__" and self_attr(x)):
                mutable.add(x.attr)
    n = bad = scanned = 0
    for fq, f in sorted(m.functions.items()):
        if not f.cls:
            continue
        scanned += 1
        for verdict, node, cache, missing in scan(f.node, mutable):
            n += 1
            if verdict == "bad":
                bad += 1
                ctx.violation("E13", f.file, f.short, node, f"self.{cache}[...] key",
                              f"`{ast.unparse(node)[:70]}` caches a value computed from self.{', self.'.join(missing)} under a key that does "
                              f"not contain {'it' if len(missing) == 1 else 'them'}: once {'that attribute changes' if len(missing) == 1 else 'they change'} "
                              f"(formatters assign a printer's indent_str for the duration of a document) the cached value is stale, and "
                              f"text printed later comes out with the earlier document's value")
            else:
                ctx.proved("E13", f.file, f.short, node, f"self.{cache}[...] key", "the key covers every attribute the value is computed from")
    if not bad:
        ctx.proved("E13", "graphtage/", "-", None, "memo keys complete", f"{scanned} methods scanned, {n} keyed stores on self, none under-keyed "
                                                                        f"(embedded positive and negative examples judged as expected)")
    ctx.floor("E13", scanned, 300, "methods scanned for memo stores")
