"""C05 witness 3: asking a PossibleEdits that was given `initial_cost` whether it is valid (or complete) before refining it
marks it invalid for good; refining it first leaves it valid.

TreeNode.diff() / get_all_edit_contexts() drive an edit with
    while edit.valid and not edit.is_complete() and edit.tighten_bounds(): ...
so under that driving the edit is never refined at all, while `while edit.tighten_bounds(): pass` refines it to a
definitive, valid cost."""
import sys

from graphtage import json as gjson
from graphtage.bounds import Range
from graphtage.edits import PossibleEdits
from graphtage.sequences import FixedLengthSequenceEdit
import graphtage.levenshtein as lev

lev.DEFAULT_PRINTER.quiet = True

FROM = ["abcdefgh", "xyzxyzxyz", [1, 2, 3, "abcdefg"]]
TO = ["abcfefgh", "xyxyzxyy", [1, 2, 4, "abdefg"]]


def make():
    a = gjson.build_tree(FROM)
    b = gjson.build_tree(TO)
    # the documented use of initial_cost: "Initial bounds on the cost of the best choice, if known"
    return PossibleEdits(
        a, b, iter([a.edits(b), FixedLengthSequenceEdit(a, b)]),
        initial_cost=Range(0, a.total_size + b.total_size + 1)
    )


# Driving A: refine only
edit_a = make()
while edit_a.tighten_bounds():
    pass
res_a = (str(edit_a.bounds()), edit_a.valid, [type(e).__name__ for e in edit_a.edits()])

# Driving B: the loop of TreeNode.diff(), which asks for validity and completeness before every refinement
edit_b = make()
while edit_b.valid and not edit_b.is_complete() and edit_b.tighten_bounds():
    pass
res_b = (str(edit_b.bounds()), edit_b.valid, [type(e).__name__ for e in edit_b.edits()])

# Driving C: a single validity query, then refine only
edit_c = make()
_ = edit_c.valid
while edit_c.tighten_bounds():
    pass
res_c = (str(edit_c.bounds()), edit_c.valid, [type(e).__name__ for e in edit_c.edits()])

print("A (tighten only):            bounds, valid, script =", res_a)
print("B (diff()-style loop):       bounds, valid, script =", res_b)
print("C (ask valid, then tighten): bounds, valid, script =", res_c)
if res_a != res_b or res_a != res_c:
    print("VIOLATION: cost / validity / script depend on whether valid or is_complete() was asked before refining")
    sys.exit(1)
sys.exit(0)
