"""C19 - match expressions cannot reach private attributes.

R19a reflective primitives occur only in get_member, dominated by the underscore test on the same name; R19b the
member-access operator executes exactly get_member with an unexpanded right operand and no other operator performs
attribute access; R19c identifiers resolve only through locals/globals (DEFAULT_GLOBALS the only default); R19d the
whitelist equals the documented list and avoids reflective builtins; R19e capability check for attribute-traversing
public methods of reachable values (str.format / format_map).
"""
import ast
import re

from ..astx import code
from ..astx import self_attr, walk_no_nested, dotted, call_name, dominating_conditions, flatten_conditions, func_params, terminates, \
    resolve_local
from ..core import norm, Inconclusive

MOD = "graphtage.expressions"
REFLECTIVE_CALLS = {"getattr", "setattr", "delattr", "hasattr", "eval", "exec", "compile", "__import__", "globals",
                    "locals", "vars", "dir", "operator.attrgetter", "attrgetter", "object.__getattribute__",
                    "importlib.import_module", "import_module"}
REFLECTIVE_ATTRS = {"__dict__", "__getattribute__", "__class__", "__globals__", "__builtins__", "__subclasses__",
                    "__mro__", "__bases__", "__code__", "__closure__"}
DENY_BUILTINS = {"getattr", "setattr", "delattr", "hasattr", "eval", "exec", "compile", "__import__", "globals", "locals",
                 "vars", "dir", "open", "input", "type", "object", "super", "memoryview", "breakpoint", "classmethod",
                 "staticmethod", "property", "format", "print", "help", "exit", "quit", "callable", "isinstance",
                 "issubclass", "next", "repr", "reversed", "range", "pow", "divmod"}
# public methods of reachable builtin types that traverse attributes named inside their *data* argument
ATTRIBUTE_TRAVERSING_METHODS = {
    "str": {
        "format": "string values are reachable (string literals; `str` is whitelisted) and `format` does not start with an underscore, so "
                  "`'{0._secret}'.format(obj)` is allowed: str.format reads the attribute named in the format string, including private ones",
        "format_map": "string values are reachable (string literals; `str` is whitelisted) and `format_map` does not start with an underscore, so "
                      "`'{0._secret}'.format_map(obj)` is allowed: str.format_map reads the attribute named in the format string, including private ones",
        "translate": "`'abc'.translate(K)` subscripts its table argument itself: for a class K CPython reads K.__class_getitem__ (and calls it "
                     "if defined), although get_item refuses `K[97]` - the refusal covers the `[` and `?:` operators only",
    },
    "property": {
        "getter/setter/deleter": "a class's public @property is reachable as `K.size` (a property object is ordinary data to get_member); its public "
                                 "methods getter / setter / deleter copy `__doc__` from their argument: `K.size.getter(obj)` reads obj.__doc__",
    },
    "method": {
        "repr": "`str(obj.method)`, `ascii([obj.method])`, `'%s' % obj.method` and the evaluator's own error texts format a bound method; "
                "CPython's method_repr reads __qualname__ and __name__ of the wrapped callable (any callable object can be wrapped by a "
                "descriptor returning types.MethodType)",
    },
}


def r19a(ctx):
    m = ctx.model
    ctx.rule("R19a", "reflective primitives (getattr, __getattribute__, __dict__, vars, eval, exec, compile, __import__, "
                     "globals, locals, setattr, attrgetter) occur in expressions.py only inside get_member, after "
                     "`if <name>.startswith('_'): raise` on the same name")
    tree = m.mods.get(MOD)
    if tree is None:
        raise Inconclusive("graphtage/expressions.py missing")
    gm = m.functions.get(f"{MOD}.get_member")
    if gm is None:
        ctx.violation("R19a", m.files[MOD], "get_member", None, "get_member", "get_member no longer exists")
        return
    n = 0
    for node in ast.walk(tree):
        hit = None
        if isinstance(node, ast.Call) and (call_name(node) in REFLECTIVE_CALLS):
            hit = call_name(node)
        elif isinstance(node, ast.Attribute) and node.attr in REFLECTIVE_ATTRS and isinstance(node.ctx, ast.Load):
            if node.attr == "__class__" and isinstance(node.value, ast.Name) and node.value.id == "self":
                continue    # self.__class__.__name__ in __repr__ methods
            hit = "." + node.attr
        if hit is None:
            continue
        n += 1
        fn = m.enclosing_function(node)
        where = fn.name if fn is not None else "<module>"
        if fn is not gm.node:
            ctx.violation("R19a", m.files[MOD], where, node, f"{hit} in {where}",
                          f"reflective primitive `{norm(node, 60)}` is used in `{where}`, outside get_member: attribute "
                          f"names reaching it are not subject to the underscore test")
            continue
        # inside get_member: the name argument must be guarded
        if isinstance(node, ast.Call) and call_name(node) == "getattr" and len(node.args) >= 2:
            name_expr = ast.unparse(node.args[1]).replace(" ", "")
            facts = flatten_conditions(dominating_conditions(node))
            ok = any((not pol) and isinstance(t, ast.Call) and isinstance(t.func, ast.Attribute) and t.func.attr == "startswith"
                     and ast.unparse(t.func.value).replace(" ", "") == name_expr and t.args
                     and isinstance(t.args[0], ast.Constant) and t.args[0].value == "_" for t, pol in facts)
            # the true edge must raise
            raises = False
            for s in walk_no_nested(gm.node):
                if isinstance(s, ast.If) and isinstance(s.test, ast.Call) and isinstance(s.test.func, ast.Attribute) \
                        and s.test.func.attr == "startswith" and ast.unparse(s.test.func.value).replace(" ", "") == name_expr:
                    raises = bool(s.body) and isinstance(s.body[-1], ast.Raise)
            # the guarded name must still hold the tested value when getattr reads it: no store to it after the test
            guard_line = min((s.lineno for s in walk_no_nested(gm.node) if isinstance(s, ast.If) and isinstance(s.test, ast.Call)
                              and isinstance(s.test.func, ast.Attribute) and s.test.func.attr == "startswith"
                              and ast.unparse(s.test.func.value).replace(" ", "") == name_expr), default=None)
            restore = [x for x in walk_no_nested(gm.node) if isinstance(x, ast.Name) and isinstance(x.ctx, ast.Store)
                       and x.id == name_expr and guard_line is not None and guard_line < x.lineno <= node.lineno]
            if ok and raises and restore:
                ctx.violation("R19a", m.files[MOD], "get_member", restore[0], "getattr guarded",
                              f"`{name_expr}` is tested with startswith('_') and then re-assigned (line {restore[0].lineno}) before "
                              f"getattr(obj, {name_expr}) reads it: the value that is looked up is not the value that was tested "
                              f"(e.g. a normalisation that turns a look-alike character into '_')")
            elif ok and raises and len(node.args) == 2:
                ctx.proved("R19a", m.files[MOD], "get_member", node, "getattr guarded",
                           f"getattr(obj, {name_expr}) is dominated by `if {name_expr}.startswith('_'): raise`")
            else:
                why = "a default value is passed (swallows errors)" if len(node.args) > 2 else \
                    f"no dominating `{name_expr}.startswith('_')` test with a raise on the true edge (facts: " \
                    f"{[ast.unparse(t)[:40] + ('' if p else ' is False') for t, p in facts]})"
                ctx.violation("R19a", m.files[MOD], "get_member", node, "getattr guarded",
                              f"getattr(obj, {name_expr}) can be reached with a name that starts with an underscore: {why}")
        else:
            ctx.violation("R19a", m.files[MOD], "get_member", node, f"{hit} in get_member",
                          f"unexpected reflective primitive `{norm(node, 60)}` in get_member")
    ctx.floor("R19a", n, 1, "reflective primitive sites in expressions.py")
    # the type test that precedes the name test must reject non-identifiers (strings computed at run time)
    src = code(gm.node).replace(" ", "")
    mp = func_params(gm.node)[1] if len(func_params(gm.node)) > 1 else "member"
    flat_src = src.replace("\n", "")
    if f"ifnotisinstance({mp},IdentifierToken):raise" in flat_src or f"ifnotissubclass(type({mp}),IdentifierToken):raise" in flat_src:
        ctx.proved("R19a", m.files[MOD], "get_member", gm.node, "member is an identifier token",
                   "non-identifier member operands are rejected before the name is read")
    else:
        ctx.violation("R19a", m.files[MOD], "get_member", gm.node, "member is an identifier token",
                      "get_member no longer rejects member operands that are not IdentifierToken")


def operator_table(m):
    q = m.find_class("Operator")
    if not q:
        raise Inconclusive("Operator enum missing")
    mod, cls = m.classes[q]
    out = {}
    for s in cls.body:
        if isinstance(s, ast.Assign) and isinstance(s.targets[0], ast.Name) and isinstance(s.value, ast.Tuple):
            out[s.targets[0].id] = (s, s.value.elts)
    return q, out


def r19b(ctx):
    m = ctx.model
    ctx.rule("R19b", "the member-access operator executes exactly get_member(a, b) with its right operand left "
                     "unexpanded (an identifier token, not a variable's value); no other operator lambda reads attributes")
    q, ops = operator_table(m)
    f = m.files[MOD]
    ctx.floor("R19b", len(ops), 20, "operators in the Operator enum")
    for name, (s, elts) in ops.items():
        lam = elts[2] if len(elts) > 2 else None
        if not isinstance(lam, ast.Lambda):
            ctx.inconclusive("R19b", f, f"Operator.{name}", s, f"{name} execute", "execute slot is not a lambda")
            continue
        attrs = [x for x in ast.walk(lam.body) if isinstance(x, ast.Attribute)]
        calls = [x for x in ast.walk(lam.body) if isinstance(x, ast.Call)]
        if elts[0].value == "." if isinstance(elts[0], ast.Constant) else False:
            args = [a.arg for a in lam.args.args]
            ok_body = isinstance(lam.body, ast.Call) and call_name(lam.body) == "get_member" \
                and [dotted(a) for a in lam.body.args] == args
            expand = elts[6] if len(elts) > 6 else None
            ok_expand = isinstance(expand, ast.Tuple) and len(expand.elts) == 2 and \
                isinstance(expand.elts[1], ast.Constant) and expand.elts[1].value is False
            if ok_body and ok_expand:
                ctx.proved("R19b", f, f"Operator.{name}", s, "member access -> get_member",
                           "executes get_member(a, b); expand=(True, False) keeps the member operand an identifier token")
            else:
                ctx.violation("R19b", f, f"Operator.{name}", s, "member access -> get_member",
                              f"the '.' operator is `{norm(lam, 60)}` with expand={norm(expand) if expand is not None else 'default'}: "
                              f"it must call get_member(a, b) and must not expand its right operand (a variable's value "
                              f"would then be used as the attribute name, or the underscore test is bypassed)")
        else:
            bad = [c for c in calls if call_name(c) in REFLECTIVE_CALLS or call_name(c) == "get_member"] + attrs
            if bad:
                ctx.violation("R19b", f, f"Operator.{name}", s, f"{name} reads attributes",
                              f"operator {name} executes `{norm(lam, 60)}`, which performs attribute access outside the "
                              f"member-access operator")
            else:
                ctx.proved("R19b", f, f"Operator.{name}", s, f"{name} execute", f"`{norm(lam.body, 40)}` reads no attributes",
                           nontrivial=False)


def r19c(ctx):
    m = ctx.model
    ctx.rule("R19c", "identifier tokens resolve only through the locals and globals mappings handed to eval, raise "
                     "KeyError otherwise (no fall-through to builtins), and DEFAULT_GLOBALS is the only default")
    eq = m.need_class("Expression")
    gv, ev = m.method(eq, "get_value"), m.method(eq, "eval")
    f = gv.file
    # get_value, judged as a whole (whatever the branch layout): what it may return, read, call and name
    params = func_params(gv.node)
    tok = [p_ for p_ in params if p_ != "self"][0]
    maps = set(params[-2:])
    gbody = ast.Module(body=gv.node.body, type_ignores=[])      # the statements, not the signature's annotations
    aliases_ = set(maps)
    for l_ in walk_no_nested(gbody):
        if isinstance(l_, ast.For) and isinstance(l_.target, ast.Name) and isinstance(l_.iter, (ast.Tuple, ast.List)) \
                and l_.iter.elts and all(dotted(e_) in maps for e_ in l_.iter.elts):
            aliases_.add(l_.target.id)         # `for scope in (locals, globals):`
    if not any("IdentifierToken" in ast.unparse(s_.test) for s_ in walk_no_nested(gbody) if isinstance(s_, ast.If)):
        ctx.inconclusive("R19c", f, "Expression.get_value", gv.node, "identifier branch", "IdentifierToken branch not found")
    else:
        def rooted_at_token(e_):
            while isinstance(e_, ast.Attribute):
                e_ = e_.value
            return isinstance(e_, ast.Name) and e_.id == tok
        locals_ = {t_.id for a_ in walk_no_nested(gbody) if isinstance(a_, ast.Assign) for t_ in a_.targets if isinstance(t_, ast.Name)
                   and (rooted_at_token(a_.value) or (isinstance(a_.value, ast.Call) and call_name(a_.value) == "type" and len(a_.value.args) == 1
                                                      and rooted_at_token(a_.value.args[0])))}
        rets = [r_ for r_ in walk_no_nested(gbody) if isinstance(r_, ast.Return) and r_.value is not None]
        bad_rets = [r_ for r_ in rets if not (rooted_at_token(resolve_local(gv.node, r_.value))
                                              or (isinstance(r_.value, ast.Subscript) and dotted(r_.value.value) in aliases_))]
        reads = [x for x in walk_no_nested(gbody) if isinstance(x, ast.Subscript)]
        bad = [x for x in reads if dotted(x.value) not in aliases_] + bad_rets
        other_calls = [c for c in walk_no_nested(gbody) if isinstance(c, ast.Call)
                       and call_name(c) not in ("KeyError", "ValueError", "TypeError", "isinstance", "issubclass", "type")]
        names_used = {x.id for x in walk_no_nested(gbody) if isinstance(x, ast.Name)}
        token_classes = {n_ for n_ in names_used if m.resolve_class(MOD, ast.Name(id=n_, ctx=ast.Load())) is not None}
        foreign = names_used - aliases_ - locals_ - token_classes - {"KeyError", "ValueError", "TypeError", "isinstance", "issubclass", "type"} - set(params)
        raises_key = any(isinstance(r_, ast.Raise) and r_.exc is not None and "KeyError" in ast.unparse(r_.exc) for r_ in walk_no_nested(gbody))
        if not bad and not other_calls and not foreign and raises_key and terminates(gv.node.body):
            ctx.proved("R19c", f, "Expression.get_value", gv.node, "identifier resolution",
                       f"names are looked up in {sorted(maps)} only; unknown names raise")
        else:
            ctx.violation("R19c", f, "Expression.get_value", (bad or other_calls or [gv.node])[0], "identifier resolution",
                          f"identifier resolution reaches beyond the supplied mappings "
                          f"({[norm(x, 40) for x in bad + other_calls]} {sorted(foreign)}"
                          + ("" if raises_key else "; an unknown name no longer raises KeyError") + "): names outside the variables given "
                          f"and the whitelist can be resolved")
    # eval defaults
    src = code(ev.node).replace(" ", "")
    defaults_ok = "ifglobalsisNone:\nglobals:Dict[str,Any]=DEFAULT_GLOBALS" in src.replace("    ", "") or \
                  "globals=DEFAULT_GLOBALS" in src or "globals:Dict[str,Any]=DEFAULT_GLOBALS" in src
    extra = [x for x in ("builtins", "__builtins__", "globals()", "locals()", "vars(") if x in src]
    # the environments are read-only: the globals mapping may be the shared whitelist itself
    gp = func_params(ev.node)[2] if len(func_params(ev.node)) > 2 else "globals"
    aliases = {gp}
    for _ in range(3):
        for s_ in walk_no_nested(ev.node):
            if isinstance(s_, (ast.Assign, ast.AnnAssign)) and s_.value is not None and dotted(s_.value) in aliases:
                t_ = s_.targets[0] if isinstance(s_, ast.Assign) else s_.target
                if isinstance(t_, ast.Name):
                    aliases.add(t_.id)
    muts = []
    for fnode in (ev.node, gv.node):
        for x in walk_no_nested(fnode):
            if isinstance(x, ast.Call) and isinstance(x.func, ast.Attribute) and dotted(x.func.value) in aliases | {"DEFAULT_GLOBALS"} \
                    and x.func.attr in ("update", "setdefault", "pop", "popitem", "clear", "__setitem__", "__delitem__"):
                muts.append(x)
            if isinstance(x, ast.Subscript) and isinstance(x.ctx, (ast.Store, ast.Del)) and dotted(x.value) in aliases | {"DEFAULT_GLOBALS"}:
                muts.append(x)
            # `d |= other` updates a dict in place (`d = d | other` does not)
            if isinstance(x, ast.AugAssign) and isinstance(x.op, ast.BitOr) and dotted(x.target) in aliases | {"DEFAULT_GLOBALS"}:
                muts.append(x)
    # ... and nothing is kept on the Expression between evaluations: the same compiled expression is evaluated for every pair of
    # nodes, so state stored on self (a merged scope, a memo of resolved names) makes the variables of one call resolvable in the next
    kept = []
    # eval(), get_value() and the methods of the class they call (two levels): state kept by a helper is state all the same
    eq_ = m.need_class("Expression")
    kept_region = [ev.node, gv.node]
    frontier_ = [ev.node, gv.node]
    for _ in range(2):
        nxt_ = []
        for g_ in frontier_:
            for c_ in walk_no_nested(g_):
                if isinstance(c_, ast.Call) and self_attr(c_.func):
                    h_ = m.method(eq_, self_attr(c_.func))
                    if h_ is not None and h_.node not in kept_region and h_.node.name != "__init__":
                        kept_region.append(h_.node)
                        nxt_.append(h_.node)
        frontier_ = nxt_
    for fnode in kept_region:
        self_alias = {"self"}
        held = set()
        for a_ in walk_no_nested(fnode):
            if isinstance(a_, (ast.Assign, ast.AnnAssign)) and a_.value is not None and isinstance(a_.value, ast.Attribute) \
                    and isinstance(a_.value.value, ast.Name) and a_.value.value.id == "self":
                t_ = a_.targets[0] if isinstance(a_, ast.Assign) else a_.target
                if isinstance(t_, ast.Name):
                    held.add(t_.id)
        for x in walk_no_nested(fnode):
            if isinstance(x, ast.Attribute) and isinstance(x.ctx, ast.Store) and isinstance(x.value, ast.Name) and x.value.id == "self":
                kept.append(x)
            elif isinstance(x, ast.Call) and isinstance(x.func, ast.Attribute) and x.func.attr in ("update", "setdefault", "pop", "popitem", "clear", "append", "add", "extend") \
                    and ((isinstance(x.func.value, ast.Attribute) and isinstance(x.func.value.value, ast.Name) and x.func.value.value.id == "self")
                         or (isinstance(x.func.value, ast.Name) and x.func.value.id in held)):
                kept.append(x)
            elif isinstance(x, ast.Subscript) and isinstance(x.ctx, (ast.Store, ast.Del)) and (
                    (isinstance(x.value, ast.Attribute) and isinstance(x.value.value, ast.Name) and x.value.value.id == "self")
                    or (isinstance(x.value, ast.Name) and x.value.id in held)):
                kept.append(x)
    if kept:
        ctx.violation("R19c", f, "Expression.eval", kept[0], "no state between evaluations",
                      f"`{norm(kept[0], 60)}` stores on the Expression object while evaluating: a compiled expression is reused for every "
                      f"candidate pair, so what one evaluation was given (its variables, or a local that shadowed a built-in) is still "
                      f"resolvable in the next one that was not given it")
    else:
        ctx.proved("R19c", f, "Expression.eval", ev.node, "no state between evaluations", "eval() and get_value() store nothing on self")
    if muts:
        ctx.violation("R19c", f, "Expression.eval", muts[0], "whitelist is read-only",
                      f"`{norm(muts[0], 60)}` writes into the globals mapping, which is the shared DEFAULT_GLOBALS whitelist whenever "
                      f"the caller passes none: variables of one evaluation become resolvable in later ones (and can shadow "
                      f"built-ins), so the names an expression can resolve are no longer 'the variables it was given and the whitelist'")
    if defaults_ok and not extra:
        ctx.proved("R19c", f, "Expression.eval", ev.node, "default environment", "globals defaults to DEFAULT_GLOBALS, locals to {}")
    else:
        ctx.violation("R19c", f, "Expression.eval", ev.node, "default environment",
                      f"Expression.eval's default environment is not exactly DEFAULT_GLOBALS / {{}} ({extra})")


def r19d(ctx):
    m = ctx.model
    ctx.rule("R19d", "DEFAULT_GLOBALS is exactly the documented list of built-ins and contains no reflective built-in")
    tree = m.mods[MOD]
    f = m.files[MOD]
    dg = None
    for s in tree.body:
        if isinstance(s, (ast.Assign, ast.AnnAssign)):
            t = s.targets[0] if isinstance(s, ast.Assign) else s.target
            if isinstance(t, ast.Name) and t.id == "DEFAULT_GLOBALS":
                dg = s
    if dg is None:
        raise Inconclusive("DEFAULT_GLOBALS not found")
    names = set()
    v = dg.value
    if isinstance(v, ast.DictComp) and isinstance(v.generators[0].iter, (ast.Tuple, ast.List)):
        ok_key = ast.unparse(v.key).replace(" ", "") == f"{v.generators[0].target.id}.__name__" and \
            dotted(v.value) == v.generators[0].target.id
        if not ok_key:
            ctx.violation("R19d", f, "<module>", dg, "DEFAULT_GLOBALS shape", "DEFAULT_GLOBALS is not {obj.__name__: obj for obj in (...)}")
        for e in v.generators[0].iter.elts:
            if isinstance(e, ast.Name):
                names.add(e.id)
            else:
                ctx.violation("R19d", f, "<module>", e, f"whitelist entry {norm(e, 30)}",
                              f"whitelist entry `{norm(e, 40)}` is not a plain built-in name")
    elif isinstance(v, ast.Dict):
        for k, val in zip(v.keys, v.values):
            if isinstance(k, ast.Constant):
                names.add(k.value)
    else:
        raise Inconclusive("DEFAULT_GLOBALS is neither a dict display nor the documented comprehension")
    # later mutation of the table
    for node in ast.walk(tree):
        if isinstance(node, ast.Subscript) and dotted(node.value) == "DEFAULT_GLOBALS" and isinstance(node.ctx, ast.Store):
            ctx.violation("R19d", f, "<module>", node, "DEFAULT_GLOBALS mutated", f"DEFAULT_GLOBALS is extended after its definition: {norm(node)}")
        if isinstance(node, ast.Call) and isinstance(node.func, ast.Attribute) and dotted(node.func.value) == "DEFAULT_GLOBALS" \
                and node.func.attr in ("update", "setdefault", "__setitem__"):
            ctx.violation("R19d", f, "<module>", node, "DEFAULT_GLOBALS mutated", f"DEFAULT_GLOBALS is extended after its definition: {norm(node)}")
    doc = ast.get_docstring(tree) or ""
    seg = doc[doc.find("DEFAULT_GLOBALS"):]
    seg = seg[:seg.find("OPERATORS_BY_NAME")] if "OPERATORS_BY_NAME" in seg else seg
    documented = set(re.findall(r":(?:func|class):`([a-z_]+)`", seg))
    ctx.floor("R19d", len(names), 20, "whitelisted built-ins")
    extra, missing = sorted(names - documented), sorted(documented - names)
    deny = sorted(names & DENY_BUILTINS)
    if deny:
        ctx.violation("R19d", f, "<module>", dg, f"reflective built-in {deny}",
                      f"the whitelist contains {deny}: with it an expression can read arbitrary (private) attributes or "
                      f"reach the interpreter")
    if extra or missing:
        ctx.violation("R19d", f, "<module>", dg, "whitelist != documentation",
                      f"DEFAULT_GLOBALS differs from the documented list: undocumented {extra}, documented but absent {missing}")
    if not deny and not extra and not missing:
        ctx.proved("R19d", f, "<module>", dg, "whitelist == documentation",
                   f"{len(names)} names, identical to the documented list, none reflective")
    return names


def r19e(ctx, names):
    m = ctx.model
    ctx.rule("R19e", "capability check: for every built-in type whose values an expression can obtain, get_member refuses "
                     "its public attribute-traversing methods (str.format / str.format_map read attributes named inside "
                     "the format string, bypassing the underscore test)")
    gm = m.functions.get(f"{MOD}.get_member")
    f = m.files[MOD]
    reachable_str = "str" in names or m.find_class("StringToken") is not None
    src = code(gm.node) if gm else ""
    for ty, meths in ATTRIBUTE_TRAVERSING_METHODS.items():
        if ty == "str" and not reachable_str:
            continue
        for meth in sorted(meths):
            needles = [x for part in meth.split("/") for x in (f"'{part}'", f'"{part}"')]
            closed = any(x in src for x in needles) if ty != "method" else ("MethodType" in src and "result" in src)
            if closed:
                ctx.proved("R19e", f, "get_member", gm.node, f"{ty}.{meth}", f"get_member has a rule for {ty}.{meth}")
            else:
                ctx.violation("R19e", f, "get_member", gm.node, f"{ty}.{meth}", meths[meth])


# Operators whose CPython implementation reads private attributes of an operand on its own (frozen table; each line confirmed by a
# tripwire witness in hunting wave 2).  (operator member, what must appear in its lambda for the channel to be closed, description)
INTERPRETER_SIDE_READS = [
    ("BITWISE_OR", "type(", "`C | D` on two classes builds a types.UnionType; str()/ascii()/'%s' of it (all whitelisted) run union_repr, "
                            "which reads __origin__, __qualname__ and __module__ of every member class"),
    ("FUNCTION_CALL", "tuple", "`a(*b)` with a b that is not a tuple of arguments (reached by `x(1)[0]`: the pending call is applied after "
                               "the subscript): CPython formats the TypeError with the callee's __qualname__ and __module__, and "
                               "MatchIf/MatchUnless log the text"),
]


def r19e2(ctx):
    m = ctx.model
    ctx.rule("R19e", "capability check, operators: an operator whose CPython implementation reads private attributes of its operands "
                     "by itself (frozen table) guards the operand shape that triggers it")
    oq = m.need_class("Operator")
    mod, cnode = m.classes[oq]
    members = {st.targets[0].id: st for st in cnode.body if isinstance(st, ast.Assign) and isinstance(st.targets[0], ast.Name)}
    for name, needle, why in INTERPRETER_SIDE_READS:
        st = members.get(name)
        if st is None:
            continue
        lam = next((x for x in ast.walk(st.value) if isinstance(x, ast.Lambda)), None)
        txt = ast.unparse(lam) if lam is not None else ast.unparse(st.value)
        if needle in txt:
            ctx.proved("R19e", m.files[mod], f"Operator.{name}", st, f"Operator.{name}", f"the operator tests its operand (`{needle}`) first")
        else:
            ctx.violation("R19e", m.files[mod], f"Operator.{name}", st, f"Operator.{name}",
                          f"`{norm(lam if lam is not None else st, 40)}`: {why} - private attributes are read without any underscore "
                          f"member access in the expression")


REQUIRED_INTROSPECTION = {"GeneratorType", "CoroutineType", "FrameType", "CodeType", "TracebackType", "FunctionType", "ModuleType"}


def r19f(ctx):
    m = ctx.model
    ctx.rule("R19f", "interpreter objects are dead ends: generators, coroutines, frames, code objects, tracebacks, functions and "
                     "modules expose builtins / globals / locals through PUBLIC names (gi_frame, f_builtins, f_globals, co_consts), "
                     "so the underscore test alone does not confine member access; get_member must refuse every member of such "
                     "objects (an isinstance test against those types that raises before the getattr)")
    gm = m.functions.get(f"{MOD}.get_member")
    f = m.files[MOD]
    obj = func_params(gm.node)[0]
    found = set()
    site = None
    via_isinstance = None
    for i in walk_no_nested(gm.node):
        guard = None
        if isinstance(i, ast.If) and isinstance(i.test, ast.Call) and len(i.test.args) == 2 and any(isinstance(x, ast.Raise) for x in i.body):
            if call_name(i.test) == "isinstance" and dotted(i.test.args[0]) == obj:
                guard = i.test.args[1]
                via_isinstance = i
            elif call_name(i.test) == "issubclass" and ast.unparse(i.test.args[0]).replace(" ", "") == f"type({obj})":
                guard = i.test.args[1]
        if guard is not None:
            t = guard
            if isinstance(t, ast.Name):
                r = m.lookup(MOD, t.id)
                t = r[1] if r and r[0] == "assign" else t
            for e in (t.elts if isinstance(t, ast.Tuple) else [t]):
                d = dotted(e) or ""
                if d.startswith("types."):
                    found.add(d.split(".", 1)[1])
                elif d and "." not in d:
                    r2 = m.lookup(MOD, d)
                    if r2 and r2[0] == "ext" and r2[1].startswith("types."):
                        found.add(r2[1].split(".", 1)[1])
            site = i
    getattrs = [c for c in walk_no_nested(gm.node) if isinstance(c, ast.Call) and call_name(c) == "getattr"]
    before = site is not None and all(site.lineno < c.lineno for c in getattrs)
    missing = sorted(REQUIRED_INTROSPECTION - found)
    if via_isinstance is not None:
        ctx.violation("R19f", f, "get_member", via_isinstance, "guard reads __class__",
                      f"`{norm(via_isinstance.test, 60)}`: isinstance() on the object under inspection falls back to a normal `{obj}.__class__` "
                      f"lookup, i.e. the guard itself reads an underscore attribute through the object's __getattribute__; use "
                      f"issubclass(type({obj}), ...)")
    if not missing and before:
        ctx.proved("R19f", f, "get_member", site, "interpreter objects refused", f"members of {sorted(found)} are refused before getattr")
    else:
        ctx.violation("R19f", f, "get_member", site or gm.node, "interpreter objects refused",
                      f"get_member does not refuse members of {missing or 'interpreter objects'} before its getattr: with a TreeNode in "
                      f"the environment, `(from.get_all_edits(to)).gi_frame.f_builtins['getattr']` hands the expression an "
                      f"unrestricted getattr and __import__ (private attributes, arbitrary code) although no name in it starts with "
                      f"an underscore")


def r19g(ctx):
    m = ctx.model
    ctx.rule("R19g", "indexing cannot be applied to classes: `list[x]` builds a types.GenericAlias whose C implementation reads "
                     "x.__origin__ / __qualname__ / __module__ and calls x.__typing_subst__; the GETITEM operator must refuse "
                     "type objects before subscripting")
    q, ops = operator_table(m)
    f = m.files[MOD]
    s_, elts = ops.get("GETITEM", (None, None))
    if s_ is None:
        ctx.inconclusive("R19g", f, "Operator", None, "GETITEM", "GETITEM operator not found")
        return
    lam = elts[2]
    body = lam.body if isinstance(lam, ast.Lambda) else None
    ok = False
    why = f"`{norm(lam, 50)}` subscripts its left operand directly"
    if isinstance(body, ast.Call) and call_name(body):
        h = m.functions.get(f"{MOD}.{call_name(body)}")
        if h is not None:
            p0 = func_params(h.node)[0]
            subs = [x for x in walk_no_nested(h.node) if isinstance(x, ast.Subscript) and dotted(x.value) == p0]
            guards = [i for i in walk_no_nested(h.node) if isinstance(i, ast.If) and ast.unparse(i.test).replace(" ", "") == f"issubclass(type({p0}),type)"
                      and any(isinstance(x, ast.Raise) for x in i.body)]
            if any(isinstance(i, ast.If) and ast.unparse(i.test).replace(" ", "").startswith(f"isinstance({p0},") for i in walk_no_nested(h.node)):
                ctx.violation("R19g", f, call_name(body), h.node, "guard reads __class__",
                              f"{call_name(body)} tests `isinstance({p0}, ...)`: isinstance() falls back to reading {p0}.__class__ through the "
                              f"object's own __getattribute__; use issubclass(type({p0}), type)")
            ok = bool(subs) and bool(guards) and all(guards[0].lineno < x.lineno for x in subs)
            why = f"{call_name(body)} does not raise for `issubclass(type({p0}), type)` before `{p0}[...]`"
    if ok:
        ctx.proved("R19g", f, "Operator.GETITEM", s_, "classes not subscriptable", f"`{norm(lam, 50)}` refuses type objects before subscripting")
    else:
        ctx.violation("R19g", f, "Operator.GETITEM", s_, "classes not subscriptable",
                      f"{why}: `str(list[x])` (list, tuple, dict, set, frozenset are whitelisted) makes CPython's generic-alias code "
                      f"read x.__origin__, x.__qualname__ and x.__module__ - private attributes get_member refuses")


def r19h(ctx):
    m = ctx.model
    ctx.rule("R19h", "objects handed to expressions do not export their private state through public methods: when an evaluation "
                     "site passes live nodes (not their to_obj() data) as variables, no public method of those classes returns "
                     "self.__dict__ / vars(self) (or a copy)")
    live = []
    for fq, fn in sorted(m.functions.items()):
        for c in walk_no_nested(fn.node):
            if isinstance(c, ast.Call) and isinstance(c.func, ast.Attribute) and c.func.attr == "eval":
                for k in c.keywords:
                    kv = resolve_local(fn.node, k.value) if k.arg == "locals" else None
                    if isinstance(kv, ast.Dict):
                        for v in kv.values:
                            if isinstance(v, ast.Name) and v.id in func_params(fn.node):
                                live.append((fn, c, v.id))
    ctx.floor("R19h", len(live), 1, "evaluation sites passing live objects")
    TREE = "graphtage.tree.TreeNode"
    n = 0
    flagged = []
    for q in sorted(m.subclasses(TREE)):
        for name, (kind, fn) in sorted(m.attrs[q].items()):
            if kind != "def" or name.startswith("_"):
                continue
            for r in walk_no_nested(fn.node):
                if isinstance(r, ast.Return) and r.value is not None:
                    t = ast.unparse(resolve_local(fn.node, r.value)).replace(" ", "")
                    if "self.__dict__" in t or "vars(self)" in t:
                        flagged.append((q, name, fn, r))
    for q, name, fn, r in flagged:
        overrides = sorted(o.rsplit(".", 1)[-1] for o, n2, _, _ in flagged if n2 == name and o != q and m.is_subclass(o, q))
        if any(n2 == name and o != q and m.is_subclass(q, o) for o, n2, _, _ in flagged):
            continue        # an override of a flagged base method: reported once, at the base
        if True:
            if True:
                if True:
                    if True:
                        n += 1
                        site = live[0] if live else None
                        ctx.violation("R19h", fn.file, fn.short, r, f"{fn.short} returns the instance dict",
                                      f"{fn.short}() returns `{norm(r.value, 40)}` and "
                                      + (f"{site[0].short} evaluates expressions over live nodes (`{site[2]}`)" if site else "nodes are handed to expressions")
                                      + (f" (overridden alike in {overrides})" if overrides else "")
                                      + ": an expression can call it and index the result with a private attribute name "
                                        "(`from.editable_dict()['_parent']`), observing private state without any underscore member access")
    if not n:
        ctx.proved("R19h", m.files[MOD], "-", None, "no public __dict__ export", "no public node method returns the instance dict")


def r19i(ctx):
    m = ctx.model
    ctx.rule("R19i", "the evaluator never asks isinstance() about a value: for an object whose type is not the tested class, "
                     "isinstance() falls back to reading `obj.__class__` through the object's own __getattribute__ - a private "
                     "attribute read that no member guard sees.  In get_member, get_item, Expression.get_value and Expression.eval "
                     "every class test on anything but the parser's own tokens (`for t in self.tokens`) is written "
                     "`issubclass(type(v), ...)`; raw subscripts in operator lambdas go through get_item")
    eq = m.need_class("Expression")
    fns = [m.functions.get(f"{MOD}.get_member"), m.functions.get(f"{MOD}.get_item"), m.method(eq, "get_value"), m.method(eq, "eval")]
    n = 0
    for f in fns:
        if f is None:
            ctx.inconclusive("R19i", m.files[MOD], "-", None, "evaluator functions", "an evaluator function is missing")
            continue
        own_tokens = {l.target.id for l in walk_no_nested(f.node) if isinstance(l, ast.For) and isinstance(l.target, ast.Name)
                      and ast.unparse(l.iter).replace(" ", "") == "self.tokens"}
        for c in walk_no_nested(f.node):
            if isinstance(c, ast.Call) and call_name(c) == "isinstance" and c.args:
                n += 1
                a0 = c.args[0]
                if isinstance(a0, ast.Name) and a0.id in own_tokens:
                    ctx.proved("R19i", f.file, f.short, c, f"isinstance({a0.id}, ...)", "a token of the parsed expression, never a user value", nontrivial=False)
                else:
                    ctx.violation("R19i", f.file, f.short, c, f"isinstance({norm(a0, 20)}, {norm(c.args[1], 30) if len(c.args) > 1 else '?'})",
                                  f"`{norm(c, 60)}` is applied to `{norm(a0, 20)}`, which can hold an evaluated value (an intermediate "
                                  f"result such as `x.child`): for an object that is not an instance by type, isinstance() reads its "
                                  f"`__class__` through __getattribute__ - observable by the object, and not refused by get_member")
            elif isinstance(c, ast.Call) and call_name(c) == "issubclass" and c.args and isinstance(c.args[0], ast.Call) and call_name(c.args[0]) == "type":
                n += 1
                ctx.proved("R19i", f.file, f.short, c, f"issubclass(type({norm(c.args[0].args[0], 20)}), ...)", "type()-based class test")
    # operator lambdas: a raw subscript on an operand bypasses get_item's class guard
    oq = m.need_class("Operator")
    mod, cnode = m.classes[oq]
    for st in cnode.body:
        if isinstance(st, ast.Assign) and isinstance(st.value, ast.Tuple):
            for lam in [x for x in st.value.elts if isinstance(x, ast.Lambda)]:
                ps = {a.arg for a in lam.args.args}
                for sub in ast.walk(lam.body):
                    if isinstance(sub, ast.Subscript) and isinstance(sub.value, ast.Name) and sub.value.id in ps:
                        n += 1
                        ctx.violation("R19i", m.files[mod], f"Operator.{st.targets[0].id}", sub, f"raw subscript in {st.targets[0].id}",
                                      f"`{norm(lam, 50)}` subscripts its operand directly: `1 ? SomeClass` evaluates SomeClass[True], which "
                                      f"reads `__class_getitem__` (and `__parameters__`, `__module__` for generic classes) - get_item refuses "
                                      f"to subscript a class, this operator does not go through it")
    ctx.floor("R19i", n, 6, "class tests and raw subscripts in the evaluator")


def r19j(ctx):
    m = ctx.model
    ctx.rule("R19j", "a word shaped like a name is a name: Tokenizer.peek turns a word into a number with int()/float(), and float() "
                     "accepts `nan`, `inf` and `infinity` in any case - so those words never become identifier tokens: they resolve "
                     "although they are neither variables nor whitelisted, and a variable of that name cannot be reached.  The "
                     "float() conversion of a raw word must sit under a test of the word's shape (first character / isidentifier / "
                     "a pattern)")
    tq = m.need_class("Tokenizer")
    n = 0
    sites = [(fn, c) for name, (kind, fn) in sorted(m.attrs[tq].items()) if kind == "def" for c in walk_no_nested(fn.node)]
    for pk, c in sites:
        if isinstance(c, ast.Call) and call_name(c) == "float" and len(c.args) == 1 and isinstance(c.args[0], ast.Name):
            n += 1
            w = c.args[0].id
            facts = [ast.unparse(t) for t, pol in flatten_conditions(dominating_conditions(c))]
            shaped = [x for x in facts if w in x and any(k in x for k in ("isidentifier", "isalpha", "isdigit", "isdecimal", "match(", "[0]", "[:1]"))]
            if shaped:
                ctx.proved("R19j", pk.file, pk.short, c, f"float({w}) shape test", f"only reached under `{shaped[0][:60]}`")
            else:
                ctx.violation("R19j", pk.file, pk.short, c, f"float({w}) shape test",
                              f"`{norm(c, 30)}` is tried on every word that is not an integer, whatever its shape: `nan + 0` evaluates to nan "
                              f"with no variables at all (expected KeyError: unknown identifier), and with locals={{'nan': 5}} the variable is "
                              f"shadowed by the literal")
    ctx.floor("R19j", n, 1, "float() conversions of raw words in the Tokenizer")


def run(ctx):
    r19j(ctx)
    r19i(ctx)
    r19a(ctx)
    r19b(ctx)
    r19c(ctx)
    names = r19d(ctx)
    r19e(ctx, names)
    r19e2(ctx)
    r19f(ctx)
    r19g(ctx)
    r19h(ctx)
    ctx.assume("the denylist of reflective built-ins and the table of attribute-traversing public methods are frozen "
               "tables (DESIGN.md section 8); objects placed in the environment by the caller may expose further "
               "public methods that traverse attributes - out of scope")
