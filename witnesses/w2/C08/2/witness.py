"""C08 witness 2: a mapping with a binary key and a string key of the same text loses one of the two pairs, and which
one is lost depends on the order of the keys; a document and its key-permuted copy therefore do not compare as equal."""
import os
import sys
import tempfile

from graphtage import BuildOptions
from graphtage import json as gjson
from graphtage import yaml as gyaml
from graphtage.printer import DEFAULT_PRINTER

DEFAULT_PRINTER.quiet = True

YAML_1 = "? !!binary YQ==\n: 1\na: 2\nb: 3\n"   # {b'a': 1, 'a': 2, 'b': 3}
YAML_2 = "b: 3\na: 2\n? !!binary YQ==\n: 1\n"   # the same mapping, keys reordered
PY_1 = {b"a": 1, "a": 2, "b": 3}
PY_2 = {"b": 3, "a": 2, b"a": 1}


def load_yaml(text, options):
    with tempfile.NamedTemporaryFile("w", suffix=".yml", delete=False) as f:
        f.write(text)
    try:
        return gyaml.build_tree(f.name, options)
    finally:
        os.unlink(f.name)


def cost(from_tree, to_tree):
    edit = from_tree.edits(to_tree)
    while edit.valid and edit.tighten_bounds():
        pass
    assert edit.bounds().definitive()
    return edit.bounds().upper_bound


def attempt(build, doc, options):
    try:
        return build(doc, options), None
    except Exception as e:   # a loader that rejects such a mapping must reject it in every key order
        return None, type(e).__name__


failed = False
for name, kwargs in (("auto", {}), ("match", {"auto_match_keys": False}), ("none", {"allow_key_edits": False})):
    options = BuildOptions(**kwargs)
    for source, build, d1, d2 in (
            ("YAML file", load_yaml, YAML_1, YAML_2),
            ("json.build_tree", lambda d, o: gjson.build_tree(d, o), PY_1, PY_2)
    ):
        (t1, e1), (t2, e2) = attempt(build, d1, options), attempt(build, d2, options)
        if e1 is not None or e2 is not None:
            if e1 != e2:
                failed = True
                print(f"[{name}/{source}] one key order is rejected ({e1}) and the other is not ({e2})")
            continue
        c = cost(t1, t2)
        if c != 0 or t1 != t2 or len(t1) != len(t2):
            failed = True
            print(f"[{name}/{source}] the document and its key-permuted copy differ: cost {c}, equal {t1 == t2}\n"
                  f"    {d1!r} -> {t1.to_obj()!r}\n    {d2!r} -> {t2.to_obj()!r}")
sys.exit(1 if failed else 0)
