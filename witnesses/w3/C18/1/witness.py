"""A cyclic structure must end in a cycle error promptly.  Here the cycle is the very first child of the root, but the
root also holds a DAG of 41 shared lists; the builder formats repr() of the whole structure into the error message,
and repr() unfolds the DAG (2**40 brackets), so the error never arrives (or MemoryError arrives instead)."""
import subprocess
import sys

CHILD = r'''
import resource, sys
from graphtage import BuildOptions
from graphtage.builder import BasicBuilder
from graphtage import pydiff

def vm_size():
    try:
        with open("/proc/self/status") as f:
            for line in f:
                if line.startswith("VmSize:"):
                    return int(line.split()[1]) * 1024
    except OSError:
        pass
    return 4 << 30
lim = vm_size() + (1 << 30)
try:
    resource.setrlimit(resource.RLIMIT_AS, (lim, lim))   # keep the runaway repr() from eating the machine
except (ValueError, OSError):
    pass

x = []
for _ in range(40):
    x = [x, x]            # 41 list objects in total, each shared twice by the next one
a = []
a.append(a)               # the cycle: first child of the root
a.append(x)               # never reached by the builder

which = sys.argv[1]
build = BasicBuilder().build_tree if which == "basic" else pydiff.build_tree
try:
    build(a)
except ValueError as e:
    print("CYCLE_ERROR message length", len(str(e)))
    sys.exit(0)
except BaseException as e:
    print("OTHER", type(e).__name__)
    sys.exit(3)
print("NO_ERROR")
sys.exit(4)
'''

TIME_LIMIT = 15
failed = False
for which in ("basic", "pyobj"):
    try:
        p = subprocess.run([sys.executable, "-c", CHILD, which], capture_output=True, text=True, timeout=TIME_LIMIT)
    except subprocess.TimeoutExpired:
        print(f"[{which}] a list that contains itself plus a 41-object DAG: no cycle error after {TIME_LIMIT}s (hang)")
        failed = True
        continue
    out = (p.stdout + p.stderr).strip().splitlines()
    last = out[-1] if out else ""
    if p.returncode != 0:
        print(f"[{which}] expected ValueError('Detected a cycle ...'), got: {last!r} (exit code {p.returncode})")
        failed = True
    else:
        print(f"[{which}] ok: {last}")
sys.exit(1 if failed else 0)
