"""Sets are among the structures the builders convert (BasicBuilder / pydiff.build_tree give a MultiSetNode), but the
third entry point, graphtage.json.build_tree, has no branch for set / frozenset and refuses them."""
import sys
from collections import Counter

from graphtage import BuildOptions
from graphtage import json as gjson, pydiff
from graphtage.builder import BasicBuilder

failed = False
for obj in ({1, 2, 3}, frozenset({"a"}), [1, {"k": {2.5, None}}], set()):
    for options in (BuildOptions(), BuildOptions(allow_key_edits=False)):
        reference = BasicBuilder(options).build_tree(obj)
        assert pydiff.build_tree(obj, options) == reference
        try:
            tree = gjson.build_tree(obj, options)
        except Exception as e:
            print(f"json.build_tree({obj!r}) raised {type(e).__name__}: {e}; BasicBuilder gives {reference!r}")
            failed = True
            continue
        if not (tree == reference):
            print(f"json.build_tree({obj!r}) = {tree!r} differs from BasicBuilder's {reference!r}")
            failed = True
sys.exit(1 if failed else 0)
