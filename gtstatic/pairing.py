"""E12 - what a recursive function notes on the way in, it forgets on the way out (on every way out, if on any).

A recursive builder that tracks "what is being expanded further up the stack" in a set (an ancestor set for cycle
detection) must remove the entry on every normal exit after adding it.  An exit that skips the removal turns the set into
"everything ever visited": the second, perfectly legal, reference to a shared sub-object is then reported as a cycle - for
one branch of the function only (one option, one container kind), so one loader refuses data its siblings accept.
"""
import ast

from .astx import walk_no_nested, call_name, dotted, func_params, block_of, ancestors, _set_parents
from .core import Inconclusive

POSITIVE = """
def build(obj, seen):
    if isinstance(obj, list):
        seen.add(id(obj))
        out = [build(x, seen) for x in obj]
        seen.discard(id(obj))
        return out
    elif isinstance(obj, dict):
        seen.add(id(obj))
        items = {k: build(v, seen) for k, v in obj.items()}
        if len(items) > 3:
            seen.discard(id(obj))
            return items
        else:
            return dict(items)
    return obj
"""
NEGATIVE = """
def build(obj, seen):
    if isinstance(obj, list):
        seen.add(id(obj))
        try:
            return [build(x, seen) for x in obj]
        finally:
            seen.discard(id(obj))
    elif isinstance(obj, dict):
        seen.add(id(obj))
        items = {k: build(v, seen) for k, v in obj.items()}
        seen.discard(id(obj))
        if len(items) > 3:
            return items
        return dict(items)
    return obj
"""


def _is_call_stmt(s, attrs, names):
    return isinstance(s, ast.Expr) and isinstance(s.value, ast.Call) and isinstance(s.value.func, ast.Attribute) \
        and s.value.func.attr in attrs and dotted(s.value.func.value) in names


def scan(fn, helper_adds=None):
    """[(verdict, return node, enter stmt)] for every return of fn that follows an 'enter' (set.add) of a tracking set."""
    helper_adds = helper_adds or {}
    name = fn.name
    recursive = any(isinstance(c, ast.Call) and (dotted(c.func) == name or (isinstance(c.func, ast.Attribute) and c.func.attr == name))
                    for c in walk_no_nested(fn))
    if not recursive:
        return []
    out = []
    for s in walk_no_nested(fn):
        sets = None
        if isinstance(s, ast.Expr) and isinstance(s.value, ast.Call):
            c = s.value
            if isinstance(c.func, ast.Attribute) and c.func.attr == "add" and isinstance(c.func.value, ast.Name):
                sets = {c.func.value.id}
            elif isinstance(c.func, ast.Name) and c.func.id in helper_adds:
                pos = helper_adds[c.func.id]
                if pos < len(c.args) and isinstance(c.args[pos], ast.Name):
                    sets = {c.args[pos].id}
        if not sets:
            continue
        # only sets the function itself treats as a path set: somewhere it does remove an entry (a set that is never shrunk
        # is a 'visited' set by design - one path releasing what another keeps is the contradiction this rule reports)
        if not any(_is_call_stmt(x, ("discard", "remove"), sets) for x in walk_no_nested(fn)):
            continue
        lst, idx = block_of(s)
        if lst is None:
            continue
        for later in lst[idx + 1:]:
            for r in [later] if isinstance(later, ast.Return) else [x for x in walk_no_nested(later) if isinstance(x, ast.Return)]:
                # a removal on the way from the enter to this return: an earlier sibling in any block between them, or a finally
                ok = False
                cur = r
                while cur is not None and cur is not fn:
                    l2, i2 = block_of(cur) if isinstance(cur, ast.stmt) else (None, None)
                    if l2 is not None:
                        start = idx + 1 if l2 is lst else 0
                        if any(_is_call_stmt(x, ("discard", "remove"), sets) for x in l2[start:i2]):
                            ok = True
                    par = getattr(cur, "_parent", None)
                    if isinstance(par, ast.Try) and any(_is_call_stmt(x, ("discard", "remove"), sets) for x in par.finalbody):
                        ok = True
                    if l2 is lst:
                        break
                    cur = par
                out.append(("ok" if ok else "bad", r, s))
    return out


# ---- E12b: a set that is only ever grown is a 'visited' set; refusing on a repeat visit turns sharing into a cycle ---------------
POSITIVE_B = """
def build(obj, seen=None):
    if seen is None:
        seen = set()
    if isinstance(obj, (list, dict)):
        if id(obj) in seen:
            raise ValueError("cycle")
        seen.add(id(obj))
    if isinstance(obj, list):
        return [build(x, seen) for x in obj]
    return obj
"""
NEGATIVE_B = """
def build(obj, seen=frozenset()):
    if isinstance(obj, (list, dict)):
        if id(obj) in seen:
            raise ValueError("cycle")
        seen = seen | {id(obj)}
    if isinstance(obj, list):
        return [build(x, seen) for x in obj]
    return obj
def walk(obj, visited):
    if id(obj) in visited:
        return None
    visited.add(id(obj))
    return [walk(x, visited) for x in obj]
"""


def scan_b(fn):
    """[(verdict, raise node, set name)]: in a recursive function, a membership test on a set that leads to `raise` while the
    set is grown in place (`S.add`), handed on to the recursive calls as it is, and never shrunk."""
    name = fn.name
    rec_calls = [c for c in walk_no_nested(fn) if isinstance(c, ast.Call) and (dotted(c.func) == name or (isinstance(c.func, ast.Attribute) and c.func.attr == name))]
    if not rec_calls:
        return []
    from .astx import dominating_conditions, flatten_conditions
    out = []
    grown = {c.func.value.id for c in walk_no_nested(fn) if isinstance(c, ast.Call) and isinstance(c.func, ast.Attribute)
             and c.func.attr == "add" and isinstance(c.func.value, ast.Name)}
    for S in sorted(grown):
        if any(_is_call_stmt(x, ("discard", "remove", "pop", "clear"), {S}) for x in walk_no_nested(fn)):
            continue            # E12 judges sets that are shrunk somewhere
        handed_on = any(any(isinstance(a, ast.Name) and a.id == S for a in list(c.args) + [k.value for k in c.keywords]) for c in rec_calls)
        if not handed_on:
            continue
        for r in walk_no_nested(fn):
            if not isinstance(r, ast.Raise):
                continue
            for t, pol in flatten_conditions(dominating_conditions(r)):
                if pol and isinstance(t, ast.Compare) and len(t.ops) == 1 and isinstance(t.ops[0], ast.In) and dotted(t.comparators[0]) == S:
                    out.append(("bad", r, S))
    return out


def e12(ctx):
    m = ctx.model
    ctx.rule("E12", "enter/leave pairing in recursive functions: an entry added to a tracking set on the way in (`seen.add(id(obj))`, "
                    "directly or through a helper) is removed again before every return that follows it - otherwise the set means "
                    "'visited' instead of 'on the current path' for that exit, and shared (not cyclic) sub-objects are refused")
    pos = scan(_set_parents(ast.parse(POSITIVE)).body[0])
    neg = scan(_set_parents(ast.parse(NEGATIVE)).body[0])
    if sorted(v for v, *_ in pos) != ["bad", "ok", "ok"] or any(v == "bad" for v, *_ in neg) or len(neg) != 3:
        raise Inconclusive(f"E12 self-test: embedded examples judged {[v for v, *_ in pos]} / {[v for v, *_ in neg]}")
    posb = scan_b(_set_parents(ast.parse(POSITIVE_B)).body[0])
    tb = _set_parents(ast.parse(NEGATIVE_B))
    negb = scan_b(tb.body[0]) + scan_b(tb.body[1])
    if [v for v, *_ in posb] != ["bad"] or negb:
        raise Inconclusive(f"E12b self-test: embedded examples judged {[v for v, *_ in posb]} / {[v for v, *_ in negb]}")
    # helpers that add to a set parameter
    helper_adds = {}
    for fq, f in m.functions.items():
        ps = func_params(f.node)
        for c in walk_no_nested(f.node):
            if isinstance(c, ast.Call) and isinstance(c.func, ast.Attribute) and c.func.attr == "add" and isinstance(c.func.value, ast.Name) \
                    and c.func.value.id in ps:
                helper_adds[f.node.name] = ps.index(c.func.value.id)
    n = bad = scanned = 0
    for fq, f in sorted(m.functions.items()):
        scanned += 1
        for verdict, r, enter in scan(f.node, helper_adds):
            n += 1
            if verdict == "bad":
                bad += 1
                ctx.violation("E12", f.file, f.short, r, f"return after `{ast.unparse(enter)[:40]}`",
                              f"`{ast.unparse(r)[:60]}` (line {r.lineno}) leaves {f.short} without undoing `{ast.unparse(enter)[:50]}` (line "
                              f"{enter.lineno}), which the other exits do: on this path the tracking set keeps the object after its "
                              f"expansion is finished, so a later, legal reference to the same object (a YAML alias used twice, a shared "
                              f"sub-dictionary) is reported as a cycle")
            else:
                ctx.proved("E12", f.file, f.short, r, f"return after `{ast.unparse(enter)[:40]}`", "the entry is removed before this exit")
        for verdict, r, S in scan_b(f.node):
            n += 1
            bad += 1
            ctx.violation("E12", f.file, f.short, r, f"refusal on a repeat visit ({S})",
                          f"`{ast.unparse(r)[:60]}` (line {r.lineno}) refuses an object found in `{S}`, but {f.short} only ever adds to `{S}` and "
                          f"hands the same set to its recursive calls: it holds everything visited so far, not the ancestors, so the second "
                          f"legal reference to a shared container (a YAML anchor used twice, an object reference in a binary plist) is "
                          f"reported as a cycle - one loader refuses data its siblings accept")
    if not bad:
        ctx.proved("E12", "graphtage/", "-", None, "enter/leave paired", f"{scanned} functions scanned, {n} exits after a tracked entry, all paired "
                                                                         f"(embedded positive and negative examples judged as expected)")
    ctx.floor("E12", scanned, 500, "functions scanned for enter/leave pairing")
