"""C03 witness: the flat list of edits (TreeNode.get_all_edits) hands out edits whose costs are not refined, so the
costs it lists do not add up to the cost of the comparison (neither their lower nor their upper bounds do).

Exit 1 if the costs listed by get_all_edits() differ from the fully refined top-level cost / the diff tree's cost."""
import sys

from graphtage import json as gjson
from graphtage.graphtage import BuildOptions
from graphtage.printer import DEFAULT_PRINTER

DEFAULT_PRINTER.quiet = True

FROM = {"a": "abc", "ab": "a"}
TO = {"bc": "a", "xy": "b"}


def main() -> int:
    options = BuildOptions()  # the defaults
    t1, t2 = gjson.build_tree(FROM, options), gjson.build_tree(TO, options)

    top = t1.edits(t2)
    while top.tighten_bounds():
        pass
    top_cost = top.bounds()

    tree_cost = gjson.build_tree(FROM, options).diff(gjson.build_tree(TO, options)).edited_cost()

    flat = list(t1.get_all_edits(t2))
    flat_lb = sum(e.bounds().lower_bound for e in flat)
    flat_ub = sum(e.bounds().upper_bound for e in flat)

    print(f"top-level edit, fully refined: {top_cost!s}")
    print(f"annotated diff tree          : {tree_cost}")
    print(f"flat list of all edits       : [{flat_lb}, {flat_ub}]")
    for e in flat:
        print(f"    {e!r}: {e.bounds()!s}")

    if not top_cost.definitive() or tree_cost != top_cost.upper_bound:
        print("unexpected: the other two views disagree already")
        return 1
    if flat_lb != top_cost.lower_bound or flat_ub != top_cost.upper_bound:
        print("VIOLATION: the costs of the edits listed by get_all_edits() do not add up to the cost of the comparison")
        return 1
    return 0


if __name__ == "__main__":
    sys.exit(main())
