"""C02: a binary scalar and a text scalar are different data, yet graphtage reports no edit and exits 0.

YAML `!!binary aGk=` loads as b'hi', `hi` loads as 'hi'; plist <data>aGk=</data> vs <string>hi</string> likewise.
"""
import os, subprocess, sys, tempfile, plistlib

import yaml


def run(*args):
    p = subprocess.run([sys.executable, "-m", "graphtage", "--no-color", "--quiet", *args],
                       stdout=subprocess.PIPE, stderr=subprocess.PIPE, env=os.environ)
    return p.returncode, p.stdout.decode("utf-8", "replace")


def main():
    failures = []
    with tempfile.TemporaryDirectory() as d:
        def w(name, data):
            path = os.path.join(d, name)
            with open(path, "wb") as f:
                f.write(data)
            return path

        ya = w("a.yaml", b"k: !!binary aGk=\n")
        yb = w("b.yaml", b"k: hi\n")
        with open(ya, "rb") as f:
            da = yaml.safe_load(f)
        with open(yb, "rb") as f:
            db = yaml.safe_load(f)
        assert da == {"k": b"hi"} and db == {"k": "hi"} and da != db  # the oracle: the documents are unequal
        for x, y in ((ya, yb), (yb, ya)):
            rc, out = run(x, y)
            if rc == 0:
                failures.append(f"YAML {da!r} vs {db!r}: exit status {rc}, output {out!r} (expected status 1 and an edit)")
            rc, out = run("--only-edits", x, y)
            if rc == 0:
                failures.append(f"YAML --only-edits {da!r} vs {db!r}: exit status {rc}, edits {out.strip()!r}")

        pa = w("a.plist", plistlib.dumps({"k": b"hi"}))
        pb = w("b.plist", plistlib.dumps({"k": "hi"}))
        rc, out = run(pa, pb)
        if rc == 0:
            failures.append(f"plist <data>aGk=</data> vs <string>hi</string>: exit status {rc} (expected 1)")

        # library entry point
        try:
            from graphtage import yaml as gyaml
            ta, tb = gyaml.build_tree(ya), gyaml.build_tree(yb)
            edit = ta.edits(tb)
            while edit.tighten_bounds():
                pass
            if edit.bounds().upper_bound == 0:
                failures.append(f"library: yaml.build_tree(a).edits(yaml.build_tree(b)) has total cost "
                                f"{edit.bounds()} and a == b is {ta == tb}")
        except Exception as e:  # an exception is a different defect, not a silent "equal"
            print(f"note: library comparison raised {type(e).__name__}: {e}")
    if failures:
        print("C02 violated: a bytes scalar and a str scalar with the same UTF-8 text are reported as equal")
        for f in failures:
            print("  -", f)
        return 1
    print("ok: binary vs. text scalars are reported as different")
    return 0


if __name__ == "__main__":
    sys.exit(main())
