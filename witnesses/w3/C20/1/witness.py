#!/usr/bin/env python
"""C20: a JSON file that is not valid UTF-8 (it contains the bytes ED A0 80, an encoded lone surrogate) is not reported
as malformed: graphtage diffs it, and with --format yaml it even dies with an uncaught UnicodeEncodeError."""
import os
import subprocess
import sys
import tempfile

BAD = b'{"a": "x\xed\xa0\x80y"}'      # ED A0 80 is not a legal UTF-8 sequence (RFC 3629), so this is not JSON text (RFC 8259, 8.1)
GOOD = b'{"a": "b"}'


def independent_oracle_rejects(data: bytes) -> bool:
    # The text starts with two non-NUL ASCII bytes and has no byte order mark, so by the RFC 4627 section 3 heuristic (the
    # one json.detect_encoding implements, too) the only candidate encoding is UTF-8; a conforming UTF-8 decoder refuses it.
    assert data[0] != 0 and data[1] != 0 and not data.startswith((b'\xef\xbb\xbf', b'\xff\xfe', b'\xfe\xff'))
    try:
        data.decode('utf-8')
        return False
    except UnicodeDecodeError:
        return True


def run(args):
    env = dict(os.environ)
    p = subprocess.run([sys.executable, '-m', 'graphtage'] + args, capture_output=True, env=env)
    return p.returncode, p.stdout, p.stderr.decode('utf-8', 'replace')


def main() -> int:
    assert independent_oracle_rejects(BAD)
    problems = []
    with tempfile.TemporaryDirectory() as d:
        bad = os.path.join(d, 'bad_utf8.json')
        good = os.path.join(d, 'good.json')
        with open(bad, 'wb') as f:
            f.write(BAD)
        with open(good, 'wb') as f:
            f.write(GOOD)
        for label, args in (
                ('first file', [bad, good]),
                ('second file', [good, bad]),
                ('both files (exit status)', [bad, bad]),
                ('first file, --format yaml', ['--format', 'yaml', bad, good]),
        ):
            rc, out, err = run(args)
            if 'Traceback' in err:
                problems.append(f"{label}: uncaught exception: {err.strip().splitlines()[-1]}")
            if out.strip():
                problems.append(f"{label}: a diff was printed for a file that is not valid JSON: {out[:60]!r}")
            if rc == 0:
                problems.append(f"{label}: exit status 0")
            if 'Error parsing bad_utf8.json' not in err:
                problems.append(f"{label}: no error message naming bad_utf8.json on stderr")
    if problems:
        print("VIOLATION of C20 (JSON with an ill-formed UTF-8 sequence is accepted):")
        for p in problems:
            print("  -", p)
        return 1
    print("ok: the malformed JSON was reported")
    return 0


if __name__ == '__main__':
    sys.exit(main())
