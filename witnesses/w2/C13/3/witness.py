"""C13 witness 3: a pickled dict compared with a pickled set raises instead of being rendered as a replacement.

Exit status: 1 if the internal error shows, 0 otherwise.
"""
import os
import pickle
import subprocess
import sys
import tempfile

HERE = os.path.dirname(os.path.abspath(__file__))


def graphtage(*args):
    p = subprocess.run([sys.executable, "-m", "graphtage", "--no-status", *args], capture_output=True, text=True)
    return p.returncode, p.stdout, p.stderr


def main():
    failures = []
    with tempfile.TemporaryDirectory(dir=HERE) as d:
        a, b = os.path.join(d, "a.pkl"), os.path.join(d, "b.pkl")
        with open(a, "wb") as f:
            pickle.dump({"a": 1}, f, protocol=4)
        with open(b, "wb") as f:
            pickle.dump({1, 2}, f, protocol=4)
        for opts in (("-f", "json"), ("-f", "pickle"), ("-f", "yaml", "-e"), ("-f", "xml", "-d"),
                     ("-f", "json", "-ds", "match"), ("-f", "csv", "--html")):
            rc, out, err = graphtage(a, b, *opts)
            if rc not in (0, 1) or "Traceback" in err:
                last = err.strip().splitlines()[-1] if err.strip() else ""
                failures.append(f"graphtage dict.pkl set.pkl {' '.join(opts)} -> rc={rc}: {last}")
        # the opposite direction works and shows what is expected
        rc, out, err = graphtage(b, a, "-f", "json")
        if rc not in (0, 1) or "Traceback" in err:
            print("note: set -> dict fails as well:", err.strip().splitlines()[-1:])
    if failures:
        print("VIOLATION: dict vs set (both pickle) is an internal error")
        for f in failures:
            print("  " + f)
        return 1
    print("ok: dict vs set is rendered")
    return 0


if __name__ == "__main__":
    sys.exit(main())
