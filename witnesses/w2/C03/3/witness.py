"""C03 witness: a compound edit that lists a sub-edit for its own from_node (graphtage.edits.PossibleEdits always does:
its only sub-edit is the chosen alternative for the same node) is charged twice in the annotated diff tree.

CompoundEdit.on_diff() appends the compound to from_node.edit_list and then lets every sub-edit append itself to *its*
from_node.edit_list; EditedTreeNode.edited_cost() sums the whole edit_list.

Exit 1 if the diff tree's cost differs from the fully refined top-level edit / the flat list of edits."""
import sys

from graphtage import IntegerNode, ListNode
from graphtage.edits import PossibleEdits, Replace
from graphtage.printer import DEFAULT_PRINTER

DEFAULT_PRINTER.quiet = True


class EitherList(ListNode):
    """A list that considers both an element-wise edit and a wholesale replacement, as PossibleEdits is meant for"""
    def edits(self, node):
        return PossibleEdits(self, node, iter((ListNode.edits(self, node), Replace(self, node))))


def trees():
    return (
        EitherList([IntegerNode(1), IntegerNode(2), IntegerNode(3)]),
        EitherList([IntegerNode(1), IntegerNode(5), IntegerNode(3), IntegerNode(4)])
    )


def refine(edit):
    while edit.tighten_bounds():
        pass
    return edit.bounds()


def main() -> int:
    t1, t2 = trees()
    top = t1.edits(t2)
    top_cost = refine(top)
    parts = sum(refine(e).upper_bound for e in top.edits())

    t1, t2 = trees()
    flat_cost = sum(refine(e).upper_bound for e in t1.get_all_edits(t2))

    t1, t2 = trees()
    diff = t1.diff(t2)
    tree_cost = diff.edited_cost()

    print(f"top-level edit, fully refined : {top_cost!s} (its listed sub-edits: {parts})")
    print(f"flat list of all edits        : {flat_cost}")
    print(f"annotated diff tree           : {tree_cost}   edit_list = "
          f"{[type(e).__name__ + str(e.bounds()) for e in diff.edit_list]}")
    if not top_cost.definitive() or parts != top_cost.upper_bound or flat_cost != top_cost.upper_bound:
        print("unexpected: the other views disagree already")
        return 1
    if tree_cost != top_cost.upper_bound:
        print("VIOLATION: the annotated diff tree reports a different total than the other two views")
        return 1
    return 0


if __name__ == "__main__":
    sys.exit(main())
