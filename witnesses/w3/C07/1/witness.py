#!/usr/bin/env python
"""C07 witness: the YAML loader evaluates `!!python/...` tags, so the tree built from a document (and hence the diff and
its text) is not a function of the document: two loads of the SAME file give different trees / different output."""
import io
import os
import sys
import tempfile

from graphtage.yaml import YAML, YAMLFormatter
from graphtage.printer import Printer

FROM_DOC = b"""\
stamp: !!python/object/apply:random.getrandbits [64]
clock: !!python/object/apply:time.perf_counter_ns []
name: fixed
"""
TO_DOC = b"""\
stamp: 1
clock: 2
name: fixed
"""


class Out(io.StringIO):
    def isatty(self):
        return False


def render(from_path, to_path):
    """What `graphtage FROM TO` does, minus argument parsing: load both files, diff, print; returns (text, status)"""
    filetype = YAML.default_instance
    from_tree = filetype.build_tree_handling_errors(from_path)
    to_tree = filetype.build_tree_handling_errors(to_path)
    if isinstance(from_tree, str):
        return from_tree, 1
    if isinstance(to_tree, str):
        return to_tree, 1
    out = Out()
    printer = Printer(out, ansi_color=False, quiet=True)
    diff = from_tree.diff(to_tree)
    with printer:
        YAMLFormatter.DEFAULT_INSTANCE.print(printer, diff)
    had_edits = any(any(e.has_non_zero_cost() for e in n.edit_list) for n in diff.dfs())
    return out.getvalue(), int(had_edits)


def main() -> int:
    tmpdir = tempfile.mkdtemp()
    from_path = os.path.join(tmpdir, "from.yaml")
    to_path = os.path.join(tmpdir, "to.yaml")
    try:
        with open(from_path, "wb") as f:
            f.write(FROM_DOC)
        with open(to_path, "wb") as f:
            f.write(TO_DOC)
        first = render(from_path, to_path)
        second = render(from_path, to_path)
    finally:
        for p in (from_path, to_path):
            if os.path.exists(p):
                os.unlink(p)
        os.rmdir(tmpdir)
    if first != second:
        print("VIOLATION: the same two YAML files were diffed twice in one process and the results differ")
        print("--- first call ---")
        print(first[0])
        print("--- second call ---")
        print(second[0])
        print("(the loader executed random.getrandbits() and time.perf_counter_ns() named by the document)")
        return 1
    print("ok: both calls gave the same result:")
    print(first[0])
    return 0


if __name__ == "__main__":
    sys.exit(main())
