"""C07 witness 2: graphtage.__main__.main(argv) is not repeatable inside one process.

main() ends with `printer.close()`; StatusWriter.close() closes the stream the printer wraps, i.e. sys.stdout itself.
The first call prints the diff and returns 1; an identical second call finds sys.stdout closed, prints
"Error parsing a.json: I/O operation on closed file." and then dies with ValueError instead of returning 1.
"""
import json
import os
import subprocess
import sys
import tempfile

CHILD = r'''
import json, sys
from graphtage.__main__ import main
a, b, n, report = sys.argv[1], sys.argv[2], int(sys.argv[3]), sys.argv[4]
results = []
for _ in range(n):
    try:
        results.append(["returned", main(["graphtage", "--no-color", "--quiet", a, b])])
    except SystemExit as e:
        results.append(["exit", e.code])
    except BaseException as e:
        results.append(["raised", f"{type(e).__name__}: {e}"])
with open(report, "w") as f:
    json.dump(results, f)
'''


def run(a, b, n, tmp):
    report = os.path.join(tmp, f"report{n}.json")
    proc = subprocess.run([sys.executable, "-c", CHILD, a, b, str(n), report],
                          stdout=subprocess.PIPE, stderr=subprocess.PIPE)
    with open(report) as f:
        return json.load(f), proc.stdout.decode("utf-8"), proc.stderr.decode("utf-8", "replace")


def main() -> int:
    with tempfile.TemporaryDirectory() as tmp:
        a = os.path.join(tmp, "a.json")
        b = os.path.join(tmp, "b.json")
        with open(a, "w") as f:
            f.write('{"a": [1, 2, 3], "b": "hello"}')
        with open(b, "w") as f:
            f.write('{"a": [1, 3, 4], "b": "hullo", "c": null}')
        once, out_once, _ = run(a, b, 1, tmp)
        twice, out_twice, err_twice = run(a, b, 2, tmp)
    if once != [["returned", 1]] or not out_once.strip():
        print(f"unexpected baseline: {once!r} {out_once!r}")
        return 2
    ok = twice == [once[0], once[0]] and out_twice == out_once + out_once
    if not ok:
        print("VIOLATION: calling main() twice with the same arguments in one process is not repeatable")
        print(f"  1st call: {twice[0]!r}")
        print(f"  2nd call: {twice[1]!r}")
        print(f"  stdout of one call : {out_once!r}")
        print(f"  stdout of two calls: {out_twice!r}")
        tail = [l for l in err_twice.splitlines() if l.strip()][-2:]
        print(f"  stderr tail        : {tail!r}")
        return 1
    print("ok: both calls returned the same status and printed the same bytes")
    return 0


if __name__ == "__main__":
    sys.exit(main())
