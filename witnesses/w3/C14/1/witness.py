"""C14: the command must select a file's type by name exactly as the library (graphtage.get_filetype) does.

main() calls mimetypes.init(), which rebuilds the mimetypes database from scratch and so discards every extension
registered at run time with mimetypes.add_type() - the very recipe docs/filetypes.rst gives for making Graphtage
recognise a new extension.  The library resolves the file, the command (called in the same process, as main(argv)
allows) reports "Could not determine the filetype", and afterwards the library cannot resolve it any more either.
"""
import io
import mimetypes
import os
import sys
import tempfile

import graphtage
from graphtage.__main__ import main


class Capture(io.StringIO):
    def close(self):  # main() closes its output stream
        pass


def run_cli(argv):
    out, err = Capture(), Capture()
    old = sys.stdout, sys.stderr
    sys.stdout, sys.stderr = out, err
    try:
        try:
            rc = main(['graphtage'] + argv)
        except SystemExit as e:
            rc = e.code
    finally:
        sys.stdout, sys.stderr = old
    return out.getvalue(), err.getvalue(), rc


def run_lib(from_path, to_path):
    from graphtage.printer import Printer
    from_type = graphtage.get_filetype(from_path)
    to_type = graphtage.get_filetype(to_path)
    a = from_type.build_tree(from_path, graphtage.BuildOptions())
    b = to_type.build_tree(to_path, graphtage.BuildOptions())
    diff = a.diff(b)
    s = io.StringIO()
    printer = Printer(s, ansi_color=False, quiet=True, options={'join_lists': True, 'join_dict_items': True})
    from_type.get_default_formatter().print(printer, diff)
    printer.write('\n')
    return s.getvalue(), (1 if any(e.has_non_zero_cost() for e in a.get_all_edits(b)) else 0), from_type.name


_TMP = []


def main_():
    # the documented way of teaching Graphtage (through the mimetypes module) about another extension
    mimetypes.add_type('application/json', '.gtgjson')

    d = tempfile.mkdtemp()
    _TMP.append(d)
    p1, p2 = os.path.join(d, 'a.gtgjson'), os.path.join(d, 'b.gtgjson')
    with open(p1, 'w') as f:
        f.write('{"type": "Point", "coordinates": [1, 2]}')
    with open(p2, 'w') as f:
        f.write('{"type": "Point", "coordinates": [1, 3]}')

    lib_text, lib_rc, lib_type = run_lib(p1, p2)
    cli_text, cli_err, cli_rc = run_cli(['--no-status', '--no-color', '-j', p1, p2])
    explicit_text, _, explicit_rc = run_cli(['--no-status', '--no-color', '-j', '--from-json', '--to-json', p1, p2])
    # the same file against itself: the library finds no difference (status 0)
    mimetypes.add_type('application/json', '.gtgjson')
    same_lib = run_lib(p1, p1)[:2]
    same_text, _, same_rc = run_cli(['--no-status', '--no-color', '-j', p1, p1])
    mimetypes.add_type('application/json', '.gtgjson')

    problems = []
    if (cli_text, cli_rc) != (lib_text, lib_rc):
        problems.append(
            f"library (type {lib_type!r} chosen by name) gives rc={lib_rc} text={lib_text!r}\n"
            f"  command gives rc={cli_rc} text={cli_text!r} stderr={cli_err.strip().splitlines()[-1:]!r}\n"
            f"  (command with --from-json --to-json: rc={explicit_rc} text={explicit_text!r})")
    if (same_text, same_rc) != same_lib:
        problems.append(f"a file against itself: library gives rc={same_lib[1]} text={same_lib[0]!r}, "
                        f"command gives rc={same_rc} text={same_text!r}")
    mimetypes.add_type('application/json', '.gtgjson')
    run_cli(['--no-status', '--no-color', '-j', '--from-json', '--to-json', p1, p2])
    try:
        after = graphtage.get_filetype(p1).name
    except ValueError as e:
        after = f'ValueError: {e}'
    if after != lib_type:
        problems.append(f"after main() the library's get_filetype({os.path.basename(p1)!r}) went from {lib_type!r} "
                        f"to {after!r}")
    if '.gtgjson' not in mimetypes.types_map:
        problems.append("main() removed the run-time registration of '.gtgjson' from mimetypes.types_map")

    if problems:
        print("VIOLATION: main() discards mimetypes registrations, so name-based type selection of the command "
              "differs from the library's:")
        for p in problems:
            print(" -", p)
        return 1
    print("ok")
    return 0


if __name__ == '__main__':
    rc = main_()
    sys.stdout.flush()
    import shutil
    for _d in _TMP:
        shutil.rmtree(_d, ignore_errors=True)
    os._exit(rc)
