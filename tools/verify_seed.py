#!/venv/bin/python
"""Confirm a seeded change delivered by a sub-agent, independently, in a fresh scratch worktree, and file it under
/verif/seeded/<PROP>-<i>/ (patch.diff, demo.py, notes.md, meta.json).

usage: verify_seed.py <PROP> <i> [--no-tests]
Steps: fresh worktree of /repo HEAD -> demo passes -> apply patch -> package still imports -> demo fails ->
pinned test suite passes (66) -> worktree removed.
"""
import json
import os
import shutil
import subprocess
import sys
import time

PY = "/venv/bin/python"


def sh(cmd, cwd=None, env=None, timeout=1800):
    e = dict(os.environ)
    e.update(env or {})
    import signal   # a job started with `&` from a non-interactive shell ignores SIGINT, which the suite's test_timing needs
    p = subprocess.run(cmd, cwd=cwd, env=e, shell=isinstance(cmd, str), capture_output=True, text=True, timeout=timeout,
                       preexec_fn=lambda: signal.signal(signal.SIGINT, signal.SIG_DFL))
    return p.returncode, (p.stdout + p.stderr)


def main():
    prop, i = sys.argv[1], sys.argv[2]
    run_tests = "--no-tests" not in sys.argv
    root = next((a.split("=", 1)[1] for a in sys.argv if a.startswith("--root=")), "/tmp/wt")
    tag = next((a.split("=", 1)[1] for a in sys.argv if a.startswith("--tag=")), "")
    src = f"{root}/{prop}/seed_out/{i}"
    sid = f"{prop}-{tag}{i}"
    dst = f"/verif/seeded/{sid}"
    wt = f"/tmp/vs/{sid}"
    os.makedirs("/tmp/vs", exist_ok=True)
    sh(["git", "-C", "/repo", "worktree", "remove", "--force", wt])
    rc, out = sh(["git", "-C", "/repo", "worktree", "add", "--detach", wt, "HEAD", "-q"])
    assert rc == 0, out
    meta = {"id": sid, "property": prop, "source": "independent sub-agent given only the property text and a scratch worktree",
            "base_commit": sh(["git", "-C", "/repo", "rev-parse", "--short", "HEAD"])[1].strip(), "ran": []}
    try:
        env = {"PYTHONPATH": wt, "PYTHONHASHSEED": "0"}
        demo = os.path.join(src, "demo.py")
        patch = os.path.join(src, "patch.diff")
        # demo refers to its own worktree path; rewrite to the verification worktree
        text = open(demo).read().replace(f"{root}/{prop}", wt)
        os.makedirs(os.path.join(wt, "seed_out", i), exist_ok=True)
        vdemo = os.path.join(wt, "seed_out", i, "demo.py")
        open(vdemo, "w").write(text)
        rc0, out0 = sh([PY, vdemo], cwd=wt, env=env, timeout=900)
        meta["ran"].append({"cmd": f"demo on pristine {meta['base_commit']}", "exit": rc0})
        rc, out = sh(["git", "apply", "--whitespace=nowarn", patch], cwd=wt)
        assert rc == 0, "patch does not apply: " + out
        rci, outi = sh([PY, "-c", "import graphtage, graphtage.__main__; print(graphtage.__file__)"], cwd=wt, env=env)
        meta["ran"].append({"cmd": "import graphtage with patch", "exit": rci, "file": outi.strip().splitlines()[-1] if outi.strip() else ""})
        rc1, out1 = sh([PY, vdemo], cwd=wt, env=env, timeout=900)
        meta["ran"].append({"cmd": "demo with patch", "exit": rc1, "tail": out1.strip().splitlines()[-3:]})
        tests = None
        if run_tests:
            t0 = time.time()
            rct, outt = sh([PY, "-m", "pytest", "-q", "-p", "no:cacheprovider", "--timeout=900", "-x"], cwd=wt,
                           env={"PYTHONHASHSEED": "0"}, timeout=3000)
            last = [l for l in outt.strip().splitlines() if "passed" in l or "failed" in l or "error" in l.lower()][-1:]
            tests = {"exit": rct, "summary": last, "wall_s": round(time.time() - t0)}
            meta["ran"].append({"cmd": "pytest -q -p no:cacheprovider --timeout=900 -x (with patch)", **tests})
        ok = rc0 == 0 and rci == 0 and rc1 != 0 and (tests is None or (tests["exit"] == 0 and "66 passed" in " ".join(tests["summary"])))
        meta["confirmed"] = bool(ok)
        notes = os.path.join(src, "notes.md")
        meta["needs_to_manifest"] = open(notes).read() if os.path.exists(notes) else ""
        os.makedirs(dst, exist_ok=True)
        shutil.copy(patch, os.path.join(dst, "patch.diff"))
        open(os.path.join(dst, "demo.py"), "w").write(open(demo).read())
        if os.path.exists(notes):
            shutil.copy(notes, os.path.join(dst, "notes.md"))
        json.dump(meta, open(os.path.join(dst, "meta.json"), "w"), indent=1)
        print(sid, "CONFIRMED" if ok else f"REJECTED demo0={rc0} import={rci} demo1={rc1} tests={tests}")
        if not ok:
            print(out0[-500:], out1[-500:])
    finally:
        sh(["git", "-C", "/repo", "worktree", "remove", "--force", wt])
        shutil.rmtree(wt, ignore_errors=True)


if __name__ == "__main__":
    main()
