#!/usr/bin/env python
"""C07 witness: a YAML document with a `!!set` value is rejected with a message that embeds repr() of a Python set, so
the text graphtage prints for the same two files changes with PYTHONHASHSEED."""
import os
import subprocess
import sys
import tempfile

FROM_DOC = b"a: !!set {alpha, beta, gamma, delta, epsilon, zeta}\n"
TO_DOC = b"a: 1\n"
SEEDS = ("1", "2", "3", "4", "5", "6")


def main() -> int:
    tmpdir = tempfile.mkdtemp()
    from_path = os.path.join(tmpdir, "from.yaml")
    to_path = os.path.join(tmpdir, "to.yaml")
    results = {}
    try:
        with open(from_path, "wb") as f:
            f.write(FROM_DOC)
        with open(to_path, "wb") as f:
            f.write(TO_DOC)
        for seed in SEEDS:
            env = dict(os.environ, PYTHONHASHSEED=seed)
            proc = subprocess.run(
                [sys.executable, "-m", "graphtage", "--no-color", "--quiet", from_path, to_path],
                stdout=subprocess.PIPE, stderr=subprocess.PIPE, env=env
            )
            # keep only the diagnostic lines (drop progress-bar residue, if any)
            text = b"\n".join(
                line for line in (proc.stdout + proc.stderr).splitlines() if b"Error" in line or b"Unsupported" in line
            )
            results[seed] = (proc.returncode, proc.stdout, text)
    finally:
        for p in (from_path, to_path):
            if os.path.exists(p):
                os.unlink(p)
        os.rmdir(tmpdir)
    distinct = {v for v in results.values()}
    if len(distinct) > 1:
        print("VIOLATION: the same two files and options give different output for different PYTHONHASHSEED values:")
        for seed, (rc, _, text) in results.items():
            print(f"  PYTHONHASHSEED={seed}: exit status {rc}: {text.decode('utf-8', 'replace')}")
        return 1
    print("ok: identical output and exit status for all hash seeds:")
    rc, out, text = next(iter(distinct))
    print(f"  exit status {rc}: {(text or out).decode('utf-8', 'replace')}")
    return 0


if __name__ == "__main__":
    sys.exit(main())
