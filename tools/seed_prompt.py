"""Print the prompt given to an independent seeding sub-agent for one property (text of the property only)."""
import json, sys
pid, wt = sys.argv[1], sys.argv[2]
n = int(sys.argv[3]) if len(sys.argv) > 3 else 2
for l in open('/verif/properties.jsonl'):
    p = json.loads(l)
    if p['id'] == pid:
        break
print(f"""You are helping to evaluate a verification effort for the open-source Python project trailofbits/graphtage (a semantic diff tool for JSON/YAML/XML/CSV/plist). You have your own scratch git worktree of the project at {wt} (python package in {wt}/graphtage, tests in {wt}/test). Work ONLY inside {wt}; do not read or touch /repo or /verif or any other directory under /tmp/wt.

Here is a semantic property the project is supposed to satisfy:

  id: {p['id']}
  title: {p['title']}
  statement: {p['statement']}
  quantifier: {p['quantifier']['text']}
  relevant files: {', '.join(p['anchors']['files'])}

Your job: produce {n} DIFFERENT, independent, realistic source changes ("seeded bugs") to the graphtage package, each of which BREAKS this property while the code still imports/compiles and the existing test suite still passes. They should look like plausible developer mistakes or well-meant refactors/optimisations (an off-by-one, a dropped guard, a wrong operand, a swapped argument, a cache that is not invalidated, a missing case), not sabotage, and should touch different functions/mechanisms from one another. Prefer changes that need something specific to manifest - an unusual input, a particular option combination, a multi-step sequence of API calls, or two cooperating sites that each look fine alone - rather than ones that ordinary use would expose immediately.

For EACH change i (1..{n}) deliver, inside {wt}/seed_out/<i>/ :
  - patch.diff : a unified diff (output of `git diff` run in {wt}, touching only files under graphtage/) of ONLY that change relative to the pristine worktree HEAD;
  - demo.py    : a small standalone program that exits 0 on the pristine code and exits non-zero (assertion failure or uncaught exception) with the change applied; it must import the worktree's package (run it as `cd {wt} && PYTHONPATH={wt} /venv/bin/python seed_out/<i>/demo.py`; check that graphtage.__file__ starts with {wt});
  - notes.md   : 5-10 lines: what you changed, why it breaks the property, what specific input/sequence/configuration is needed for it to manifest.

Procedure for each change: start from a clean tree (`git -C {wt} checkout -- graphtage`), make the edit, run the demo (must fail), run the full test suite with `cd {wt} && /venv/bin/python -m pytest -q -p no:cacheprovider --timeout=900 -x` (takes 1-3 minutes; all 66 tests must pass - if any fails, your change is not acceptable; revise it), save `git diff -- graphtage > seed_out/<i>/patch.diff`, then restore the tree with `git -C {wt} checkout -- graphtage` and confirm the demo passes (exit 0) on the pristine code. The interpreter is /venv/bin/python (3.12, all dependencies installed; no network). Do not edit the tests. Leave the worktree clean (apart from seed_out/) when you finish.

Finish with a short report listing, per change: the file/function changed, a one-line description, and confirmation that (a) demo fails with the change, (b) demo passes without, (c) 66 tests pass with the change.""")
