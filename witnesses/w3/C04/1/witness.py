"""C04 witness: an EMPTY CONTAINER (empty tuple / list / dict) has total_size 0, so the size-derived cap of an
EditCollection is not an upper bound.  A fixed-key dictionary whose value is a chain of subscripts with empty-tuple
slices, compared with the same chain with integer slices, makes FixedKeyDictNodeEdit.bounds() jump from [0, 23] to
[-inf, inf] (the interval widens and never becomes a single value), and the enclosing FixedLengthSequenceEdit never
returns from tighten_bounds().

Exit status 1 when the violation shows, 0 otherwise.
"""
import ast as pyast
import logging
import signal
import sys

logging.disable(logging.CRITICAL)  # repeat_until_tightened logs one warning per iteration of its endless loop

from graphtage import BuildOptions
from graphtage.bounds import Infinity
from graphtage.printer import DEFAULT_PRINTER
from graphtage.pydiff import ast_to_tree

DEFAULT_PRINTER.quiet = True

K = 12   # smallest depth at which the overshoot (one unit per empty slice) beats the slack of the key/value pair
OPTIONS = dict(allow_key_edits=False)   # --no-key-edits: dictionaries become FixedKeyDictNode (an EditCollection)


def trees(empty: str):
    src_from = "{'k': z" + f"[{empty}]" * K + "}\n"
    src_to = "{'k': z" + "".join(f"[{i % 10}]" for i in range(K)) + "}\n"
    return (ast_to_tree(pyast.parse(src_from), BuildOptions(**OPTIONS)),
            ast_to_tree(pyast.parse(src_to), BuildOptions(**OPTIONS)))


def contains(outer, inner):
    return inner.lower_bound >= outer.lower_bound and inner.upper_bound <= outer.upper_bound


problems = []

for empty in ("()", "[]", "{}"):
    from_tree, to_tree = trees(empty)
    # Module([dict]) -> the dict expression itself
    edit = from_tree.children()[0].edits(to_tree.children()[0])
    history = [edit.bounds()]
    for step in range(1, 200):
        before = edit.bounds()
        progressed = edit.tighten_bounds()
        after = edit.bounds()
        history.append(after)
        if not contains(before, after):
            problems.append(f"slice {empty}: {type(edit).__name__} step {step}: the interval widened from {before} "
                            f"to {after}")
            break
        if progressed and after == before:
            problems.append(f"slice {empty}: step {step} reported progress but the interval stayed {before}")
            break
        if not progressed:
            if not after.definitive():
                problems.append(f"slice {empty}: step {step} reported no progress although the interval is {after}")
            break
    final = edit.bounds()
    if isinstance(final.upper_bound, Infinity) or isinstance(final.lower_bound, Infinity):
        problems.append(f"slice {empty}: refinement of {type(edit).__name__} ended at {final}; history "
                        f"{[str(h) for h in history]}")


# the whole comparison: the enclosing edit never finishes a refinement step
class _Timeout(Exception):
    pass


def _on_alarm(*_):
    raise _Timeout()


from_tree, to_tree = trees("()")
top = from_tree.edits(to_tree)
signal.signal(signal.SIGALRM, _on_alarm)
signal.alarm(5)
try:
    steps = 0
    while top.tighten_bounds():
        steps += 1
        if steps > 10000:
            problems.append("top-level edit: more than 10000 refinement steps")
            break
    signal.alarm(0)
    if not top.bounds().definitive():
        problems.append(f"top-level {type(top).__name__} stopped refining at {top.bounds()}")
except _Timeout:
    problems.append(f"top-level {type(top).__name__}.tighten_bounds() did not return within 5 seconds "
                    f"(bounds when interrupted: {top.bounds()})")
finally:
    signal.alarm(0)

if problems:
    print("C04 violated (empty containers have size 0):")
    for p in problems:
        print("  -", p)
    sys.exit(1)
print("no violation observed")
sys.exit(0)
