"""E1 - compound-edit consistency: the source sets of bounds() / edits() / tighten_bounds() / is_complete().

A *source* is one of
  attr:<name>            a sub-edit stored in an attribute (self.key_edit)
  coll:<name>            every element of a collection attribute (for e in self._sub_edits)
  const:<Ctor>[<pop>]    constant edits constructed over a population expression (Remove(r) for r in <pop>)
  via:<call>             a value obtained through a helper (self.best_possibility(), self._matcher)
  =edits()               delegation to self.edits()
Each source carries the guard under which it is used (normalised test text) and, for const sources, a selection
(`largest n=...`) if only part of the population is used.
"""
import ast

from .astx import self_attr, walk_no_nested, dominating_conditions, flatten_conditions, call_name, dotted
from .core import norm

CONST_EDITS = {"Remove", "Insert", "Match", "Replace"}


class Source:
    def __init__(self, kind, name, node, guard=(), selection=None, zero=False):
        self.kind, self.name, self.node, self.guard, self.selection, self.zero = kind, name, node, tuple(guard), selection, zero

    @property
    def ident(self):
        return f"{self.kind}:{self.name}"

    def __repr__(self):
        s = self.ident
        if self.selection:
            s += f" via {self.selection}"
        if self.guard:
            s += f" if {' and '.join(self.guard)}"
        return s


def root_self_attr(e):
    while True:
        a = self_attr(e)
        if a:
            return a
        if isinstance(e, ast.Call):
            e = e.func
        elif isinstance(e, (ast.Attribute, ast.Subscript)):
            e = e.value
        elif isinstance(e, ast.Starred):
            e = e.value
        else:
            return None


def loop_bindings(fn):
    """name -> list of (iter expr, binding node) for for-loops and comprehensions (scoped by position)."""
    out = {}
    for n in walk_no_nested(fn):
        if isinstance(n, ast.For):
            for x in ast.walk(n.target):
                if isinstance(x, ast.Name):
                    out.setdefault(x.id, []).append((n.iter, n))
        elif isinstance(n, (ast.GeneratorExp, ast.ListComp, ast.SetComp)):
            for g in n.generators:
                for x in ast.walk(g.target):
                    if isinstance(x, ast.Name):
                        out.setdefault(x.id, []).append((g.iter, n))
    return out


def binding_for(name, use, binds):
    """The loop/comprehension binding of `name` that encloses the use node."""
    cands = binds.get(name, [])
    best = None
    p = use
    chain = []
    while p is not None:
        chain.append(p)
        p = getattr(p, "_parent", None)
    for it, node in cands:
        if node in chain:
            if best is None or chain.index(node) < chain.index(best[1]):
                best = (it, node)
    return best


def guard_of(node, fn):
    facts = flatten_conditions(dominating_conditions(node))
    out = []
    for t, pol in facts:
        if not pol and isinstance(t, ast.Compare) and len(t.ops) == 1 and isinstance(t.ops[0], (ast.Is, ast.IsNot)) \
                and isinstance(t.comparators[0], ast.Constant) and t.comparators[0].value is None:
            # `not (x is None)` and `x is not None` are one guard
            t = ast.Compare(left=t.left, ops=[ast.IsNot() if isinstance(t.ops[0], ast.Is) else ast.Is()], comparators=t.comparators)
            pol = True
        txt = norm(t, 80)
        if "self." in txt:
            out.append(txt if pol else f"not ({txt})")
    return sorted(set(out))


def const_source(call, use, binds, fn):
    """Source for a constant-edit construction Remove(x) where x is bound by an enclosing loop."""
    ctor = call.func.id
    arg = call.args[0] if call.args else (call.keywords[0].value if call.keywords else None)
    if arg is None:
        return None
    if isinstance(arg, ast.Name):
        b = binding_for(arg.id, call, binds)
        if b is not None:
            return Source("const", f"{ctor}[{norm(b[0], 80)}]", call, guard_of(use, fn))
    return Source("const", f"{ctor}[{norm(arg, 80)}]", call, guard_of(use, fn))


def source_of(e, use, binds, fn, assigns):
    """Resolve the expression whose .bounds()/.tighten_bounds() is called, or that is yielded, to a Source."""
    if isinstance(e, ast.Call) and isinstance(e.func, ast.Name) and e.func.id in CONST_EDITS:
        return const_source(e, use, binds, fn)
    if isinstance(e, ast.Name):
        b = binding_for(e.id, use, binds)
        if b is not None:
            it = b[0]
            sel = None
            inner = it
            if isinstance(it, ast.Call) and (call_name(it) or "").rsplit(".", 1)[-1] == "islice" and it.args:
                it = it.args[0]           # a positional window over the same collection
                inner = it
            if isinstance(it, ast.Call) and call_name(it) in ("largest", "smallest", "sorted", "reversed", "list", "iter"):
                sel = call_name(it)
                kws = {k.arg: norm(k.value, 40) for k in it.keywords if k.arg in ("n",)}
                if kws:
                    sel += f"(n={kws.get('n')})"
                inner = it.args[0] if it.args else it
                if isinstance(inner, ast.Starred):
                    inner = inner.value
            # a local that names the population, possibly chosen by an if/else (`unmatched = (Remove(..) for ..)` in one arm,
            # `(Insert(..) for ..)` in the other): every construction any of its bindings holds
            if isinstance(inner, ast.Name) and getattr(assigns, "all", {}).get(inner.id):
                found = []
                for val in assigns.all[inner.id]:
                    for n in ast.walk(val):
                        if isinstance(n, ast.Call) and isinstance(n.func, ast.Name) and n.func.id in CONST_EDITS:
                            s = const_source(n, n, binds, fn)
                            if s is not None:
                                s.selection = sel
                                s.guard = tuple(guard_of(use, fn))
                                found.append(s)
                if found:
                    return found
            for n in ast.walk(inner):
                if isinstance(n, ast.Call) and isinstance(n.func, ast.Name) and n.func.id in CONST_EDITS:
                    s = const_source(n, use, binds, fn)
                    if s is not None:
                        s.selection = sel
                        s.guard = tuple(guard_of(use, fn))
                        if sel:
                            s.scope = b[0]     # the whole selecting expression: what is selected from, and how many
                        return s
            if isinstance(inner, ast.Call) and self_attr(inner.func) == "edits":
                return Source("=edits()", "", e, guard_of(use, fn))
            r = root_self_attr(inner)
            if r:
                if isinstance(inner, ast.Call) and isinstance(inner.func, ast.Attribute) and inner.func.attr in ("items", "values") \
                        and self_attr(inner.func.value) is None:
                    return Source("via", f"self.{r}", e, guard_of(use, fn), sel)
                return Source("coll", r, e, guard_of(use, fn), sel)
            return Source("unknown", norm(it, 50), e, guard_of(use, fn))
        # plain local assigned from something
        if e.id in assigns:
            return source_of(assigns[e.id], use, binds, fn, assigns)
        return Source("unknown", e.id, e, guard_of(use, fn))
    a = self_attr(e)
    if a:
        return Source("attr", a, e, guard_of(use, fn))
    if isinstance(e, ast.Call) and self_attr(e.func):
        return Source("via", f"self.{self_attr(e.func)}()", e, guard_of(use, fn))
    r = root_self_attr(e)
    if r:
        return Source("via", f"self.{r}", e, guard_of(use, fn))
    return Source("unknown", norm(e, 50), e, guard_of(use, fn))


def extract(fn, kind):
    """Sources used by a method.  kind in {'bounds','tighten','edits','complete'}."""
    binds = loop_bindings(fn)
    class _Assigns(dict):
        pass
    assigns = _Assigns()
    assigns.all = {}
    for n in walk_no_nested(fn):
        if isinstance(n, ast.Assign) and len(n.targets) == 1 and isinstance(n.targets[0], ast.Name):
            assigns.setdefault(n.targets[0].id, n.value)
            assigns.all.setdefault(n.targets[0].id, []).append(n.value)
    out = []
    meth = {"bounds": "bounds", "tighten": "tighten_bounds", "complete": "is_complete"}.get(kind)
    for n in walk_no_nested(fn):
        if meth and isinstance(n, ast.Call) and isinstance(n.func, ast.Attribute) and n.func.attr == meth:
            v = n.func.value
            if isinstance(v, ast.Call) and isinstance(v.func, ast.Name) and v.func.id == "super":
                out.append(Source("super", meth, n, guard_of(n, fn)))
                continue
            if isinstance(v, ast.Name) and v.id == "self":
                continue
            # key=lambda e: e.bounds() is a sort key, not a summed source
            p = getattr(n, "_parent", None)
            inlambda = False
            while p is not None and p is not fn:
                if isinstance(p, ast.Lambda):
                    inlambda = True
                    break
                p = getattr(p, "_parent", None)
            if inlambda:
                continue
            s = source_of(v, n, binds, fn, assigns)
            if isinstance(s, list):
                out.extend(s)
            elif s is not None:
                out.append(s)
        if kind == "bounds" and isinstance(n, ast.Call) and call_name(n) == "sum" and n.args:
            # sum(e.bounds() for e in self._sub_edits) is covered by the .bounds() call inside
            pass
        if kind == "edits" and isinstance(n, ast.Yield) and n.value is not None:
            s_ = source_of(n.value, n, binds, fn, assigns)
            out.extend(s_ if isinstance(s_, list) else [s_])
        if kind == "edits" and isinstance(n, ast.YieldFrom):
            v = n.value
            if isinstance(v, ast.Call) and call_name(v) in ("iter", "list", "reversed") and v.args:
                v = v.args[0]
            r = root_self_attr(v)
            out.append(Source("coll", r, n, guard_of(n, fn)) if r else Source("unknown", norm(v, 50), n, guard_of(n, fn)))
        if kind == "edits" and isinstance(n, ast.Return) and n.value is not None and not isinstance(n.value, ast.Constant):
            # generator-less edits(): return itertools.chain(...), return iter(...)
            for x in ast.walk(n.value):
                a = self_attr(x)
                if a and isinstance(getattr(x, "ctx", None), ast.Load):
                    out.append(Source("coll", a, n, guard_of(n, fn)))
                if isinstance(x, ast.Call) and isinstance(x.func, ast.Name) and x.func.id in CONST_EDITS:
                    s = const_source(x, n, binds, fn)
                    if s is not None:
                        out.append(s)
    # de-duplicate by ident+guard
    seen, uniq = set(), []
    for s in out:
        k = (s.ident, s.guard, s.selection)
        if k not in seen:
            seen.add(k)
            uniq.append(s)
    return uniq


def zero_cost_collections(model, q):
    """Collection attributes that are only ever filled with literal-zero-cost Match edits (in any method)."""
    out = set()
    filled = {}
    for k in model.c3(q):
        mod, c = model.classes[k]
        for n in ast.walk(c):
            tgt = val = None
            if isinstance(n, (ast.Assign, ast.AnnAssign)) and n.value is not None:
                t = n.targets[0] if isinstance(n, ast.Assign) else n.target
                a = self_attr(t)
                if a:
                    tgt, val = a, n.value
            if isinstance(n, ast.Call) and isinstance(n.func, ast.Attribute) and n.func.attr in ("append", "extend", "add", "insert") \
                    and self_attr(n.func.value):
                a = self_attr(n.func.value)
                e = n.args[-1] if n.args else None
                ok = isinstance(e, ast.Call) and isinstance(e.func, ast.Name) and e.func.id == "Match" and len(e.args) >= 3 \
                    and isinstance(e.args[2], ast.Constant) and e.args[2].value == 0
                filled.setdefault(a, []).append(ok)
            if tgt is None:
                continue
            elts = None
            if isinstance(val, (ast.ListComp, ast.GeneratorExp)):
                elts = [val.elt]
            elif isinstance(val, (ast.List, ast.Tuple)):
                elts = val.elts
            if elts is None:
                filled.setdefault(tgt, []).append(False)
                continue
            ok = bool(elts) and all(isinstance(e, ast.Call) and isinstance(e.func, ast.Name) and e.func.id == "Match"
                                    and len(e.args) >= 3 and isinstance(e.args[2], ast.Constant) and e.args[2].value == 0
                                    for e in elts)
            filled.setdefault(tgt, []).append(ok or (isinstance(val, (ast.List, ast.Tuple)) and not elts))
    for a, oks in filled.items():
        if oks and all(oks) :
            out.add(a)
    return out


def helper_equivalent(model, q, meth):
    """For a `via:self.<meth>()` source: the attribute/collection the helper's result belongs to, if it can be
    determined by one level of def-use (returns self.X..., or returns a value it has just stored with
    self._add(v) / self.<coll>.append(v))."""
    f = model.method(q, meth)
    if f is None:
        return None
    add_targets = {}
    init = model.method(q, "__init__")
    if init is not None:
        for n in walk_no_nested(init.node):
            if isinstance(n, (ast.Assign, ast.AnnAssign)) and n.value is not None and isinstance(n.value, ast.Lambda):
                t = n.targets[0] if isinstance(n, ast.Assign) else n.target
                a = self_attr(t)
                if a:
                    for x in ast.walk(n.value.body):
                        b = self_attr(x)
                        if b:
                            add_targets[a] = b
    rets = [n for n in walk_no_nested(f.node) if isinstance(n, ast.Return) and n.value is not None
            and not (isinstance(n.value, ast.Constant) and n.value.value is None)]
    roots = set()
    for r in rets:
        v = r.value
        if isinstance(v, ast.Call) and self_attr(v.func) == meth:
            continue    # recursion
        a = root_self_attr(v)
        if a:
            roots.add(a)
            continue
        if isinstance(v, ast.Name):
            stored = None
            for n in walk_no_nested(f.node):
                if isinstance(n, ast.Call) and isinstance(n.func, ast.Attribute) and \
                        any(isinstance(x, ast.Name) and x.id == v.id for x in n.args):
                    fa = self_attr(n.func)
                    if fa and fa in add_targets:
                        stored = add_targets[fa]
                    elif n.func.attr in ("append", "add", "push") and self_attr(n.func.value):
                        stored = self_attr(n.func.value)
            if stored:
                roots.add(stored)
                continue
        return None
    return roots.pop() if len(roots) == 1 else None


def compound_classes(model):
    """Concrete classes of the Edit hierarchy that have sub-edits: define edits() (own or inherited, non-abstract)."""
    out = []
    for q in sorted(model.classes):
        e = model.method(q, "edits")
        if e is None or model.method(q, "tighten_bounds") is None or model.method(q, "bounds") is None:
            continue
        if not (e.cls and (model.method(e.cls, "tighten_bounds") is not None)):
            continue
        if any((dotted(d) or "").endswith("abstractmethod") for d in e.node.decorator_list):
            continue
        if model.is_subclass(q, "graphtage.tree.TreeNode"):
            continue
        out.append(q)
    return out
