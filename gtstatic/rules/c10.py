"""C10 - matching options restrict the script as documented.

R10a option plumbing (builders pass the list/mapping options to every document list/mapping they construct, recursive
build calls keep the options, main maps flags with the right polarity); R10b truth table of the selection guard in
ListNode.edits; R10c = R01a positional tail; R10d keyed pairing (differing keys are paired only under allow_key_edits;
the auto pre-match pairs equal keys; the `none` strategy looks partners up by the same key).
"""
import ast
import itertools

from .. import cli
from ..astx import self_attr, walk_no_nested, dotted, call_name, parent, dominating_conditions, flatten_conditions, \
    func_params, kwarg
from ..core import norm, Inconclusive
from . import c01

LIST = "graphtage.graphtage.ListNode"
LIST_OPTS = ("allow_list_edits", "allow_list_edits_when_same_length")
# builder functions that turn *document* lists / mappings into nodes (the structural lists of the Python-AST builder -
# Module, call arguments, assignment targets - are advisory only)
BUILDERS = ["graphtage.json.build_tree", "graphtage.builder.BasicBuilder.build_list",
            "graphtage.builder.BasicBuilder.build_dict", "graphtage.builder.BasicBuilder.build_set",
            "graphtage.xml.build_tree", "graphtage.xml.XMLElement.__init__", "graphtage.csv.build_tree"]


def opts_expr(e, opt):
    """Is `e` the option `opt` read from an options object (options.X / self.options.X), possibly `options is None or options.X`?"""
    if isinstance(e, ast.BoolOp) and isinstance(e.op, ast.Or):
        return any(opts_expr(v, opt) for v in e.values)
    d = dotted(e)
    return bool(d) and d.split(".")[-1] == opt and "options" in d.split(".")[:-1]


def recursive_options(ctx, rule):
    """Every recursive call of a builder function (and every bare reference to it) keeps the `options` argument."""
    m = ctx.model
    n_rec = 0
    for bq in BUILDERS:
        f = m.functions.get(bq)
        if f is None:
            continue
        params = func_params(f.node)
        if "options" not in params:
            continue
        # the builder and the module-level helpers it hands part of the work to (`_build_item(item, options)` calling back)
        region = [f]
        for c in walk_no_nested(f.node):
            if isinstance(c, ast.Call) and isinstance(c.func, ast.Name):
                h = m.functions.get(f"{f.module}.{c.func.id}")
                if h is not None and h not in region and h.cls is None:
                    region.append(h)
        for g_, c in [(g_, c) for g_ in region for c in walk_no_nested(g_.node)]:
            if not isinstance(c, ast.Call):
                continue
            r = m.resolve_expr(f.module, c.func)
            callee = r[0][1] if r and r[0] and r[0][0] == "func" else None
            if callee == bq:
                n_rec += 1
                has = any(k.arg == "options" for k in c.keywords) or any(isinstance(a, ast.Name) and a.id == "options" for a in c.args)
                if g_ is not f:
                    # in a helper the options travel under the helper's own parameter name
                    opt_names = {p_ for p_, a_ in zip(func_params(g_.node), next((x.args for x in walk_no_nested(f.node) if isinstance(x, ast.Call)
                                  and isinstance(x.func, ast.Name) and x.func.id == g_.node.name), [])) if isinstance(a_, ast.Name) and a_.id == "options"}
                    has = any(k.arg == "options" and isinstance(k.value, ast.Name) and k.value.id in opt_names | {"options"} for k in c.keywords) \
                        or any(isinstance(a, ast.Name) and a.id in opt_names for a in c.args)
                if has:
                    ctx.proved(rule, f.file, f.short, c, f"recursive {callee.rsplit('.', 1)[-1]} keeps options",
                               "the options object is passed to the recursive build call")
                else:
                    ctx.violation(rule, f.file, f.short, c, f"recursive {callee.rsplit('.', 1)[-1]} keeps options",
                                  f"`{norm(c, 60)}` builds a sub-tree without passing `options`: below this level the "
                                  f"default options apply (key edits and list edits are allowed again)")
        for nme in walk_no_nested(f.node):
            if isinstance(nme, ast.Name) and isinstance(nme.ctx, ast.Load) and nme.id == f.node.name:
                pr = parent(nme)
                if isinstance(pr, ast.Call) and pr.func is nme:
                    continue
                r = m.resolve_expr(f.module, nme)
                if r and r[0] and r[0][0] == "func" and r[0][1] == bq:
                    n_rec += 1
                    ctx.violation(rule, f.file, f.short, nme, f"bare reference to {nme.id}",
                                  f"`{norm(pr, 60)}` passes {nme.id} as a bare callable: the recursive calls receive no "
                                  f"`options`, so nested levels fall back to the default options")
    ctx.floor(f"{rule}-rec", n_rec, 3, "recursive build calls")



def kwarg_x(m, f, call, name, pos=None):
    """kwarg(), also through `**{...}`, `**local` (a dict literal) and `**self.helper()` (a helper that returns a dict literal)."""
    v = kwarg(call, name, pos)
    if v is not None:
        return v
    for k in call.keywords:
        if k.arg is not None:
            continue
        d = k.value
        if isinstance(d, ast.Name):
            from ..astx import resolve_local
            d = resolve_local(f.node, d)
        if isinstance(d, ast.Call) and self_attr(d.func) and f.cls and not d.args:
            h = m.method(f.cls, self_attr(d.func))
            rets = [r for r in walk_no_nested(h.node) if isinstance(r, ast.Return) and r.value is not None] if h is not None else []
            d = rets[0].value if len(rets) == 1 else None
        if isinstance(d, ast.Dict):
            for kk, vv in zip(d.keys, d.values):
                if isinstance(kk, ast.Constant) and kk.value == name:
                    return vv
    return None

def r10a(ctx):
    m = ctx.model
    ctx.rule("R10a", "option plumbing: every document list constructed by a loader/builder receives allow_list_edits and "
                     "allow_list_edits_when_same_length from the options object; mappings are DictNode (auto_match_keys "
                     "set from the options) or FixedKeyDictNode according to allow_key_edits; recursive build calls pass "
                     "the options on; main maps -l/-ll/-k/--dict-strategy to the options with the right polarity")
    n_list = n_map = n_rec = 0
    for bq in BUILDERS:
        f = m.functions.get(bq)
        if f is None:
            ctx.inconclusive("R10a", "-", bq, None, bq, f"anchor builder {bq} not found")
            continue
        params = func_params(f.node)
        for c in walk_no_nested(f.node):
            if not isinstance(c, ast.Call):
                continue
            r = m.resolve_expr(f.module, c.func)
            cq = r[0][1] if r and r[0] and r[0][0] == "class" else None
            if cq and cq in m.classes and m.is_subclass(cq, LIST):
                n_list += 1
                short = cq.rsplit(".", 1)[-1]
                missing = []
                for i, opt in enumerate(LIST_OPTS):
                    v = kwarg_x(m, f, c, opt, i + 1)
                    if v is None:
                        missing.append(f"{opt} not passed")
                    elif not (opts_expr(v, opt) or (isinstance(v, ast.Name) and v.id == opt and opt in params)):
                        missing.append(f"{opt}={norm(v, 40)} is not the option of that name")
                if missing:
                    ctx.violation("R10a", f.file, f.short, c, f"{short}(...) list options",
                                  f"{short}(...) built in {f.short} ignores the list options ({'; '.join(missing)}): with "
                                  f"-l / -ll these lists are still diffed with insertions and removals instead of "
                                  f"strictly by position")
                else:
                    ctx.proved("R10a", f.file, f.short, c, f"{short}(...) list options",
                               "both list options are taken from the options object")
        # mapping selection
        def _is_opt(t):
            return opts_expr(t, "allow_key_edits") or (isinstance(t, ast.Name) and t.id == "allow_key_edits")
        sel = [i for i in walk_no_nested(f.node) if isinstance(i, ast.If) and (
            _is_opt(i.test) or (isinstance(i.test, ast.UnaryOp) and isinstance(i.test.op, ast.Not) and _is_opt(i.test.operand)))]
        for i in sel:
            n_map += 1
            then_b, else_b = list(i.body), list(i.orelse)
            if not else_b and then_b and isinstance(then_b[-1], (ast.Return, ast.Raise)):
                # guard-clause form: what follows the `if` in the same block is the other arm
                from ..astx import block_of
                lst, idx = block_of(i)
                else_b = list(lst[idx + 1:])
            if isinstance(i.test, ast.UnaryOp):
                then_b, else_b = else_b, then_b
            body, orelse = ast.unparse(ast.Module(body=then_b, type_ignores=[])), ast.unparse(ast.Module(body=else_b, type_ignores=[]))
            good_then = "DictNode.from_dict(" in body.replace("FixedKeyDictNode", "FKD") or "PyObjAttributes.from_dict(" in body
            auto = any(isinstance(s, ast.Assign) and isinstance(s.targets[0], ast.Attribute) and s.targets[0].attr == "auto_match_keys"
                       and (opts_expr(s.value, "auto_match_keys") or (isinstance(s.value, ast.Name) and s.value.id == "auto_match_keys"))
                       for st_ in then_b for s in ast.walk(st_) if isinstance(s, ast.Assign))
            good_else = "FixedKeyDictNode.from_dict(" in orelse or "FixedAttributes.from_dict(" in orelse
            if good_then and good_else and auto:
                ctx.proved("R10a", f.file, f.short, i, "mapping selection",
                           "allow_key_edits -> DictNode (auto_match_keys from the options), else FixedKeyDictNode")
            else:
                why = []
                if not good_then:
                    why.append("the allow_key_edits branch does not build a DictNode")
                if not good_else:
                    why.append("the other branch does not build a FixedKeyDictNode")
                if not auto:
                    why.append("auto_match_keys is not set from the options")
                ctx.violation("R10a", f.file, f.short, i, "mapping selection", f"{f.short}: " + "; ".join(why))
    ctx.floor("R10a-lists", n_list, 3, "document list constructions in builders")
    ctx.floor("R10a-maps", n_map, 3, "mapping selections in builders")
    # whole-program census: every list node built on a loading path (any function reachable from a file type's
    # build_tree) carries the options, whatever builder it sits in - pickle input goes through the Python-AST builder
    from ..callgraph import CallGraph
    cg = CallGraph(m)
    ents = [m.method(q, "build_tree") for q in m.filetypes() if m.method(q, "build_tree") is not None]
    reach, _ = cg.reachable(ents, set(m.filetypes()))
    n_census = 0
    done = {bq for bq in BUILDERS}
    for fq in sorted(reach):
        f = m.functions.get(fq)
        if f is None or fq in done or f.module in ("graphtage.formatter", "graphtage.printer"):
            continue
        if f.cls and m.is_subclass(f.cls, "graphtage.formatter.Formatter"):
            continue
        params = func_params(f.node)
        for c in walk_no_nested(f.node):
            if not isinstance(c, ast.Call):
                continue
            r = m.resolve_expr(f.module, c.func)
            cq = r[0][1] if r and r[0] and r[0][0] == "class" else None
            if cq is None and isinstance(c.func, ast.Name) and c.func.id in params:
                # a class-valued parameter (`sequence_type(children, ...)`): the classes its callers pass
                pos = params.index(c.func.id) - (1 if params and params[0] in ("self", "cls") else 0)
                for g in m.functions.values():
                    if g.module != f.module:
                        continue
                    for c2 in walk_no_nested(g.node):
                        if isinstance(c2, ast.Call) and (self_attr(c2.func) == f.node.name or dotted(c2.func) == f.node.name) and pos < len(c2.args):
                            r2 = m.resolve_expr(g.module, c2.args[pos])
                            q2 = r2[0][1] if r2 and r2[0] and r2[0][0] == "class" else None
                            if q2 and q2 in m.classes and m.is_subclass(q2, LIST):
                                cq = q2
            if not (cq and cq in m.classes and m.is_subclass(cq, LIST)):
                continue
            n_census += 1
            short = cq.rsplit(".", 1)[-1]
            missing = []
            for i, opt in enumerate(LIST_OPTS):
                v = kwarg_x(m, f, c, opt, i + 1)
                if v is None:
                    missing.append(f"{opt} not passed")
                elif not (opts_expr(v, opt) or (isinstance(v, ast.Name) and v.id == opt and opt in params)
                          or self_attr(v) == opt):
                    missing.append(f"{opt}={norm(v, 40)} is not the option of that name")
            if missing:
                ctx.violation("R10a", f.file, f.short, c, f"{short}(...) list options",
                              f"{short}(...) built in {f.short} (reachable from a file type's build_tree) ignores the list "
                              f"options ({'; '.join(missing)}): with -l / -ll these lists are still diffed with insertions "
                              f"and removals instead of strictly by position")
            else:
                ctx.proved("R10a", f.file, f.short, c, f"{short}(...) list options", "both list options are taken from the options object")
    ctx.floor("R10a-census", n_census, 1, "list constructions on loading paths outside the anchor builders")
    # copies keep the options
    lq = m.need_class("ListNode")
    cf = m.method(lq, "copy_from")
    calls = [c for c in walk_no_nested(cf.node) if isinstance(c, ast.Call) and dotted(c.func) in ("self.__class__", "type(self)", "ListNode")] if cf else []
    if cf is None or not calls:
        ctx.inconclusive("R10a", "graphtage/graphtage.py", "ListNode.copy_from", cf.node if cf else None, "copy keeps list options",
                         "ListNode.copy_from does not rebuild through self.__class__(...)")
    for c in calls:
        missing = [opt for i, opt in enumerate(LIST_OPTS) if self_attr(kwarg(c, opt, i + 1)) != opt]
        if missing:
            ctx.violation("R10a", cf.file, "ListNode.copy_from", c, "copy keeps list options",
                          f"`{norm(c, 60)}` rebuilds the list without {missing}: a copy of a tree built with list edits "
                          f"disabled is diffed with insertions and removals again")
        else:
            ctx.proved("R10a", cf.file, "ListNode.copy_from", c, "copy keeps list options", "copy_from forwards both list options")
    recursive_options(ctx, "R10a")
    # mapping classes set allow_key_edits on their pairs
    for cq, want in (("DictNode", True), ("FixedKeyDictNode", False)):
        q = m.need_class(cq)
        fd = m.method(q, "from_dict")
        vals = [kwarg(c, "allow_key_edits", 2) for c in walk_no_nested(fd.node) if isinstance(c, ast.Call)
                and isinstance(c.func, ast.Attribute) and c.func.attr == "make_key_value_pair_node"]
        if vals and all(isinstance(v, ast.Constant) and v.value is want for v in vals):
            ctx.proved("R10a", fd.file, f"{cq}.from_dict", fd.node, f"{cq} pairs allow_key_edits={want}",
                       f"pairs of a {cq} are created with allow_key_edits={want}")
        else:
            ctx.violation("R10a", fd.file, f"{cq}.from_dict", fd.node, f"{cq} pairs allow_key_edits={want}",
                          f"{cq}.from_dict does not create its pairs with allow_key_edits={want}")
    # polarity in main
    f, specs, groups = cli.parse_cli(m)
    table = [({}, {"allow_list_edits": True, "allow_list_edits_when_same_length": True, "allow_key_edits": True, "auto_match_keys": True}),
             ({"no_list_edits": True}, {"allow_list_edits": False}),
             ({"no_list_edits_when_same_length": True}, {"allow_list_edits_when_same_length": False}),
             ({"no_key_edits": True}, {"allow_key_edits": False, "auto_match_keys": False}),
             ({"dict_strategy": "none"}, {"allow_key_edits": False, "auto_match_keys": False}),
             ({"dict_strategy": "match"}, {"allow_key_edits": True, "auto_match_keys": False}),
             ({"dict_strategy": "auto"}, {"allow_key_edits": True, "auto_match_keys": True})]
    call = cli.build_options_call(f.node)
    for over, want in table:
        got = cli.eval_build_options(f.node, specs, over)
        bad = {k: got.get(k) for k, v in want.items() if got.get(k) is not v}
        label = " ".join(f"{k}={v}" for k, v in over.items()) or "(no option)"
        if bad:
            ctx.violation("R10a", f.file, "main", call, f"flags {label}",
                          f"with {label} main builds BuildOptions with {bad}; documented {want}")
        else:
            ctx.proved("R10a", f.file, "main", call, f"flags {label}", f"-> {want}")


def r10b(ctx):
    m = ctx.model
    ctx.rule("R10b", "ListNode.edits selects the positional edit whenever list edits are disabled (always, or for equal "
                     "lengths) and the alignment edit otherwise - truth table of the guard over the flags and lengths 0..3")
    q = m.need_class("ListNode")
    f = m.method(q, "edits")
    other = func_params(f.node)[1]
    # locate the chain: if isinstance(node, ListNode): <chain>
    outer = next((s for s in f.node.body if isinstance(s, ast.If)), None)
    if outer is None:
        raise Inconclusive("ListNode.edits: no isinstance dispatch")
    # the whole body is evaluated with `isinstance(<other>, ListNode)` known to hold, so nested-if and guard-clause forms
    # of the dispatch are treated alike
    from ..astx import subst_paths
    chain = [s_ for s_ in subst_paths(f.node).body if not (isinstance(s_, ast.Expr) and isinstance(s_.value, ast.Constant))]

    def decide(env):
        def run(stmts):
            for s in stmts:
                if isinstance(s, ast.Return):
                    v = s.value
                    return (call_name(v) or "").split(".")[-1] if isinstance(v, ast.Call) else ast.unparse(v)
                if isinstance(s, ast.If):
                    has_ret = any(isinstance(x, ast.Return) for x in ast.walk(s))
                    assigns = any(isinstance(x, (ast.Assign, ast.AnnAssign)) for x in ast.walk(s))
                    if not has_ret and not assigns:
                        continue
                    try:
                        branch = s.body if cli.ev(s.test, env) else s.orelse
                    except cli.Unknown:
                        if has_ret:
                            raise
                        continue      # a branch that only computes display/penalty values
                    r = run(branch)
                    if r is not None:
                        return r
                elif isinstance(s, (ast.Assign, ast.AnnAssign)):
                    try:
                        cli.run_stmts([s], env)
                    except cli.Unknown:
                        pass          # locals that do not matter for the selection (penalties)
            return None
        return run(chain)
    n = 0
    bad = []
    for allow, same, a, b in itertools.product((True, False), (True, False), range(4), range(4)):
        if a == b == 0:
            continue    # two empty lists are equal: handled by the equality test before the guard
        env = {"self.allow_list_edits": allow, "self.allow_list_edits_when_same_length": same,
               "self._children": ("A", a), f"{other}._children": ("B", b),
               "len(self._children)": a, f"len({other}._children)": b, "len(self)": a, f"len({other})": b,
               f"isinstance({other}, ListNode)": True, f"isinstance({other},ListNode)": True,
               "__methods__": {k: v[1].node for k, v in m.attrs[q].items() if v[0] == "def"}}
        try:
            got = decide(env)
        except cli.Unknown as u:
            raise Inconclusive(f"ListNode.edits guard is not a pure expression over the flags and lengths ({u})")
        n += 1
        must_positional = (not allow) or (not same and a == b)
        may_positional = must_positional or (a == b == 1)
        if must_positional and got != "FixedLengthSequenceEdit":
            bad.append((allow, same, a, b, got, "FixedLengthSequenceEdit"))
        elif not may_positional and got != "EditDistance":
            bad.append((allow, same, a, b, got, "EditDistance"))
    ctx.floor("R10b", n, 30, "guard evaluations")
    if bad:
        al, sm, a, b, got, want = bad[0]
        ctx.violation("R10b", f.file, "ListNode.edits", outer, "selection guard",
                      f"with allow_list_edits={al}, allow_list_edits_when_same_length={sm}, lengths {a} vs {b} the guard "
                      f"selects {got}, but the documented behaviour needs {want} ({len(bad)} of {n} cells wrong: "
                      + "; ".join(f"allow={x[0]} same_len={x[1]} {x[2]}v{x[3]}->{x[4]}" for x in bad[:6]) + ")")
    else:
        ctx.proved("R10b", f.file, "ListNode.edits", outer, "selection guard",
                   f"all {n} cells agree: positional iff list edits are off (always, or for equal lengths; plus the "
                   f"equivalent 1-vs-1 case)")


def r10d(ctx):
    m = ctx.model
    ctx.rule("R10d", "keyed pairing: KeyValuePairNode.edits pairs two pairs only if key edits are allowed or the keys are "
                     "equal; KeyValuePairEdit edits a differing key only under allow_key_edits and raises otherwise")
    kq = m.need_class("KeyValuePairNode")
    e = m.method(kq, "edits")
    o = func_params(e.node)[1]
    sites = [c for c in walk_no_nested(e.node) if isinstance(c, ast.Call) and call_name(c) == "KeyValuePairEdit"]
    ctx.floor("R10d", len(sites), 1, "KeyValuePairEdit constructions in KeyValuePairNode.edits")
    for c in sites:
        signed = [(t, pol) for t, pol, _ in dominating_conditions(c)]
        facts = [("" if pol else "not ") + ast.unparse(t).replace(" ", "") for t, pol in signed]
        # decided truth-functionally: the construction must be unreachable when key edits are off AND the keys differ
        from ..astx import facts_refute
        ok = facts_refute(signed, {"self.allow_key_edits": False, "==".join(sorted(("self.key", f"{o}.key"))): False})
        if ok:
            ctx.proved("R10d", e.file, "KeyValuePairNode.edits", c, "pair guard", "KeyValuePairEdit only under allow_key_edits or equal keys")
        else:
            ctx.violation("R10d", e.file, "KeyValuePairNode.edits", c, "pair guard",
                          f"KeyValuePairEdit is constructed under {facts}; expected `self.allow_key_edits or self.key == {o}.key`: "
                          f"with the `none` strategy two pairs with different keys could be paired")
    eq = m.need_class("KeyValuePairEdit")
    init = m.method(eq, "__init__")
    p = func_params(init.node)
    ke = [c for c in walk_no_nested(init.node) if isinstance(c, ast.Call) and isinstance(c.func, ast.Attribute)
          and c.func.attr == "edits" and dotted(c.func.value) == f"{p[1]}.key"]
    for c in ke:
        conds = flatten_conditions(dominating_conditions(c))
        pos = [ast.unparse(t).replace(" ", "") for t, pol in conds if pol]
        neg = [ast.unparse(t).replace(" ", "") for t, pol in conds if not pol]
        if f"{p[1]}.allow_key_edits" in pos and f"{p[1]}.key=={p[2]}.key" in neg:
            ctx.proved("R10d", init.file, "KeyValuePairEdit.__init__", c, "key edit guard",
                       "a differing key is edited only under allow_key_edits")
        else:
            ctx.violation("R10d", init.file, "KeyValuePairEdit.__init__", c, "key edit guard",
                          f"key edit constructed under {pos} / not {neg}; expected only when keys differ and allow_key_edits")
    raises = [r for r in walk_no_nested(init.node) if isinstance(r, ast.Raise)]
    if raises:
        ctx.proved("R10d", init.file, "KeyValuePairEdit.__init__", raises[0], "differing keys rejected",
                   "differing keys without allow_key_edits raise ValueError", nontrivial=False)
    else:
        ctx.violation("R10d", init.file, "KeyValuePairEdit.__init__", init.node, "differing keys rejected",
                      "KeyValuePairEdit no longer rejects differing keys when key edits are not allowed")


def r10e(ctx):
    m = ctx.model
    ctx.rule("R10e", "the option reaches the edit unchanged: every construction of MultiSetEdit passes `auto_match_keys=<node>.auto_match_keys` "
                     "as it is - weakened by a size test or any other condition, a key present in both mappings skips the pre-match under "
                     "the `auto` strategy and is paired by cost")
    from ..astx import resolve_local
    n = 0
    for fq, f in sorted(m.functions.items()):
        for c in walk_no_nested(f.node):
            if not (isinstance(c, ast.Call) and (call_name(c) or "").rsplit(".", 1)[-1] == "MultiSetEdit"):
                continue
            n += 1
            v = kwarg(c, "auto_match_keys", 4)
            rv = resolve_local(f.node, v) if v is not None else None
            if rv is not None and isinstance(rv, ast.Attribute) and rv.attr == "auto_match_keys":
                ctx.proved("R10e", f.file, f.short, c, f"{f.short}: auto_match_keys", f"auto_match_keys={norm(rv, 40)}")
            elif v is None:
                ctx.violation("R10e", f.file, f.short, c, f"{f.short}: auto_match_keys",
                              "MultiSetEdit is constructed without auto_match_keys: the edit's default applies, whatever the strategy chosen")
            else:
                ctx.violation("R10e", f.file, f.short, c, f"{f.short}: auto_match_keys",
                              f"MultiSetEdit receives auto_match_keys=`{norm(rv, 70)}`, not the node's option as it is: where the condition "
                              f"switches it off ({{'a': 1}} vs {{'a': 'zzzzzzzz', 'b': 1}}) the shared key is left to the matcher, which pairs "
                              f"it with the cheaper entry")
    ctx.floor("R10e", n, 1, "MultiSetEdit constructions")


def run(ctx):
    r10a(ctx)
    r10e(ctx)
    r10b(ctx)
    c01.r01a(ctx)     # R10c: only a surplus tail is removed or inserted, pairs strictly by position
    c01.r01d(ctx)     # `none`: partner looked up by the same key
    c01.r01c(ctx)     # `auto`: key pre-match pairs equal keys and skips no candidate
    from ..oneshot import e11
    e11(ctx)          # ... and the scan over the other mapping starts afresh for every key
    r10d(ctx)
    from . import c02
    c02.r02g(ctx)     # 'keys differ' is decided by leaf equality: a boolean key is not a numeric key
    ctx.assume("NaN keys: NaN is not equal to itself, so a NaN key is by definition not 'present in both mappings'; the auto "
               "strategy leaves it to the matcher (judged outside the property, see DESIGN 10.9)")
    ctx.assume("which pairs the assignment picks among the allowed ones is not decided")
