"""C08 witness (pickle file type): a pickled mapping and its key-permuted copy do not compare as equal.

graphtage.pickle diffs the *program* that fickling reconstructs from the pickle opcodes, not the mapping:
  * protocol 0 stores every dict entry with its own SETITEM opcode, which becomes one ordered statement per key
    (`_var0 = {}`, `_var0['a'] = 1`, `_var1 = _var0`, `_var1['b'] = 2`, ...);
  * protocols >= 1 store entries in SETITEMS batches of 1000, so a mapping with more than 1000 keys becomes
    `_var0 = {<first 1000 in source order>}` followed by `_var0.update({<rest>})`.
Both are children of an ordered `Module` list, so the key order of the mapping decides the cost.
"""
import os
import pickle
import sys
import tempfile
import time

from graphtage.graphtage import BuildOptions
from graphtage.pickle import Pickle
from graphtage.printer import DEFAULT_PRINTER

DEFAULT_PRINTER.quiet = True

STRATEGIES = {
    "auto": dict(allow_key_edits=True, auto_match_keys=True),
    "none": dict(allow_key_edits=False, auto_match_keys=False),
}


def cost(t1, t2) -> int:
    edit = t1.edits(t2)
    while edit.tighten_bounds():
        pass
    b = edit.bounds()
    assert b.definitive(), b
    return b.upper_bound


def tree(directory, name, obj, protocol, strategy):
    path = os.path.join(directory, name)
    with open(path, "wb") as f:
        pickle.dump(obj, f, protocol=protocol)
    return Pickle.default_instance.build_tree(path, BuildOptions(**strategy))


failures = []
with tempfile.TemporaryDirectory() as d:
    # 1. protocol 0, two keys
    doc = {"a": 1, "b": 2}
    permuted = {"b": 2, "a": 1}
    assert doc == permuted
    for name, strategy in STRATEGIES.items():
        t1 = tree(d, "doc.pkl", doc, 0, strategy)
        t2 = tree(d, "permuted.pkl", permuted, 0, strategy)
        c = cost(t1, t2)
        if c != 0:
            failures.append(f"[protocol 0/{name}] {doc!r} vs {permuted!r}: cost {c}, expected 0")
        # sanity: the unpermuted copy is equal
        assert cost(t1, tree(d, "copy.pkl", dict(doc), 0, strategy)) == 0

    # 2. default protocol, 1001 keys, the last key moved to the front
    big = {f"k{i:04d}": i for i in range(1001)}
    items = list(big.items())
    big_permuted = dict(items[-1:] + items[:-1])
    assert big == big_permuted
    for name, strategy in STRATEGIES.items():
        start = time.time()
        t1 = tree(d, "big.pkl", big, pickle.DEFAULT_PROTOCOL, strategy)
        t2 = tree(d, "big_permuted.pkl", big_permuted, pickle.DEFAULT_PROTOCOL, strategy)
        c = cost(t1, t2)
        if c != 0:
            failures.append(f"[protocol {pickle.DEFAULT_PROTOCOL}/{name}] a 1001-key mapping vs the copy with its last "
                            f"key moved to the front: cost {c}, expected 0 ({time.time() - start:.1f}s)")

if failures:
    print("C08 VIOLATION: the key order of a pickled mapping changes the comparison")
    for f in failures:
        print("  " + f)
    sys.exit(1)
print("ok")
sys.exit(0)
