"""C13 witness: a JSON string with an unpaired surrogate escape ("\\ud800" - accepted by json.load) can be rendered as
json / json5 / csv / pickle, but -f yaml, xml, html and plist die with UnicodeEncodeError.

Exits 1 when a run of the command line ends in a traceback, 0 otherwise."""
import os
import subprocess
import sys
import tempfile


def graphtage(*argv):
    env = dict(os.environ)
    env['PYTHONIOENCODING'] = 'utf-8'     # the usual encoding of stdout; pins the experiment
    p = subprocess.run([sys.executable, '-m', 'graphtage', '--no-status', *argv], capture_output=True, env=env)
    return p.returncode, p.stdout.decode('utf-8', 'replace'), p.stderr.decode('utf-8', 'replace')


def main():
    failures = []
    passes = []
    with tempfile.TemporaryDirectory() as d:
        def w(name, data):
            path = os.path.join(d, name)
            with open(path, 'w', encoding='ascii') as f:
                f.write(data)
            return path
        a = w('a.json', '{"a": "x\\ud800y"}')
        b = w('b.json', '{"a": "x\\ud800z"}')
        for fmt in ('json', 'json5', 'csv', 'pickle', 'yaml', 'xml', 'html', 'plist'):
            for label, argv in (('identical', [a, a]), ('different', [a, b]), ('different, edit digest', [a, b, '-d'])):
                rc, out, err = graphtage(*argv, '-f', fmt)
                if 'Traceback (most recent call last)' in err or rc not in (0, 1):
                    last = [line for line in err.strip().splitlines() if line.strip()][-1] if err.strip() else ''
                    failures.append(f'-f {fmt}, {label}: exit status {rc}; {last[:150]}')
                else:
                    passes.append(f'-f {fmt}, {label}')
    if failures:
        print('VIOLATION: a JSON document with an unpaired surrogate in a string cannot be rendered in some formats:')
        for f in failures:
            print('  -', f)
        print(f'  ({len(passes)} other format/mode combinations rendered the same documents without error)')
        return 1
    print('ok: all runs completed without an internal error')
    return 0


if __name__ == '__main__':
    sys.exit(main())
