"""C13 witness 1: a pickle that contains a bytes value cannot be rendered with `-f yaml`.

Identical documents (no differences at all) are enough; every other output format renders the same input.
Exit status: 1 if the internal error shows, 0 otherwise.
"""
import os
import pickle
import subprocess
import sys
import tempfile

HERE = os.path.dirname(os.path.abspath(__file__))


def graphtage(*args):
    p = subprocess.run([sys.executable, "-m", "graphtage", "--no-status", *args], capture_output=True, text=True)
    return p.returncode, p.stdout, p.stderr


def main():
    failures = []
    with tempfile.TemporaryDirectory(dir=HERE) as d:
        a, b = os.path.join(d, "a.pkl"), os.path.join(d, "b.pkl")
        for path in (a, b):
            with open(path, "wb") as f:
                pickle.dump({"k": b"abc"}, f, protocol=4)
        # control: the very same comparison renders in the other formats
        for fmt in ("json", "xml", "plist", "csv", "pickle"):
            rc, out, err = graphtage(a, b, "-f", fmt)
            if rc != 0 or "Traceback" in err:
                print(f"note: control run with -f {fmt} unexpectedly failed (rc={rc}): {err.strip().splitlines()[-1:]}")
        for mode in ((), ("-d",), ("--html",), ("--color",), ("-j",)):
            rc, out, err = graphtage(a, b, "-f", "yaml", *mode)
            if rc not in (0, 1) or "Traceback" in err:
                last = err.strip().splitlines()[-1] if err.strip() else ""
                failures.append(f"graphtage a.pkl b.pkl -f yaml {' '.join(mode)} -> rc={rc}: {last}")
    if failures:
        print("VIOLATION: pickle input containing bytes cannot be rendered as YAML")
        for f in failures:
            print("  " + f)
        return 1
    print("ok: pickle with bytes rendered as YAML")
    return 0


if __name__ == "__main__":
    sys.exit(main())
