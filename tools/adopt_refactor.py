#!/venv/bin/python
"""Copy a silent agent refactoring patch into /verif/refactor_patches as <props>__<desc>.diff; <props> are the properties whose
quick check reads (has instances in) a file the patch touches.  usage: adopt_refactor.py <patch> <desc> [...]"""
import json, os, re, shutil, sys
V = os.path.dirname(os.path.dirname(os.path.abspath(__file__)))
sys.path.insert(0, V)
from gtstatic.__main__ import run_rules
props = [c["property_id"] for c in json.load(open(os.path.join(V, "MANIFEST.json")))["checks"]]
files = {}
for p in props:
    ctx = run_rules(p, "/repo", "quick", quiet=True)
    files[p] = {i.key.split("::")[0] for i in ctx.instances}
args = sys.argv[1:]
for patch, desc in zip(args[::2], args[1::2]):
    touched = set(re.findall(r"^\+\+\+ b/(\S+)", open(patch).read(), re.M))
    ps = [p for p in props if files[p] & touched]
    dst = os.path.join(V, "refactor_patches", ",".join(ps) + "__" + desc + ".diff")
    shutil.copy(patch, dst)
    print(dst)
