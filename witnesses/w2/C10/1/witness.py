"""C10 / 'auto' dictionary strategy: a NaN key (YAML `.nan`) present in both mappings is not paired with itself.

Exit 1 when the violation shows, 0 otherwise.
"""
import logging
import math
import os
import sys
import tempfile

logging.disable(logging.CRITICAL)

from graphtage import printer as _printer
_printer.DEFAULT_PRINTER.quiet = True
from graphtage import yaml as gyaml, json as gjson
from graphtage.graphtage import BuildOptions, KeyValuePairNode
from graphtage.edits import Insert, Remove
from graphtage.tree import CompoundEdit

FROM = ".nan: aaaaaaaaaaaa\nnax: bbbbbbbbbbbb\n"
TO = ".nan: bbbbbbbbbbbb\nnay: aaaaaaaaaaaa\n"


def is_nan(node):
    return isinstance(getattr(node, "object", None), float) and math.isnan(node.object)


def complete(edit):
    # the same loop as TreeNode.diff()
    while edit.valid and not edit.is_complete() and edit.tighten_bounds():
        pass
    return edit


def nan_pairing(from_tree, to_tree):
    """Returns the list of (from key, to key) pairs of the top-level script that involve a NaN key"""
    edit = complete(from_tree.edits(to_tree))
    assert isinstance(edit, CompoundEdit), edit
    pairs = []
    for sub in edit.edits():
        if isinstance(sub, (Insert, Remove)):
            node = sub.from_node
            if isinstance(node, KeyValuePairNode) and is_nan(node.key):
                pairs.append((type(sub).__name__, repr(node.key)))
            continue
        f, t = sub.from_node, sub.to_node
        if isinstance(f, KeyValuePairNode) and isinstance(t, KeyValuePairNode):
            if is_nan(f.key) != is_nan(t.key):
                pairs.append((repr(f.key), repr(t.key)))
    return pairs


def main():
    options = BuildOptions(allow_key_edits=True, auto_match_keys=True)  # --dict-strategy auto (the default)
    failures = []

    # 1. through the YAML loader, as the command line does
    with tempfile.TemporaryDirectory() as d:
        p1, p2 = os.path.join(d, "from.yaml"), os.path.join(d, "to.yaml")
        with open(p1, "w") as f:
            f.write(FROM)
        with open(p2, "w") as f:
            f.write(TO)
        a = gyaml.build_tree(p1, options)
        b = gyaml.build_tree(p2, options)
    bad = nan_pairing(a, b)
    if bad:
        failures.append(f"YAML, strategy auto: the key .nan occurs in both mappings but the script has {bad}")

    # 2. the same through json.build_tree on the parsed objects
    nan = float("nan")
    a = gjson.build_tree({nan: "aaaaaaaaaaaa", "nax": "bbbbbbbbbbbb"}, options)
    b = gjson.build_tree({nan: "bbbbbbbbbbbb", "nay": "aaaaaaaaaaaa"}, options)
    bad = nan_pairing(a, b)
    if bad:
        failures.append(f"json.build_tree, strategy auto: the key nan occurs in both mappings but the script has {bad}")

    if failures:
        print("VIOLATION of C10 ('auto' pairs every key present in both mappings with itself):")
        for f in failures:
            print("  " + f)
        return 1
    print("ok: the NaN key is paired with itself")
    return 0


if __name__ == "__main__":
    sys.exit(main())
