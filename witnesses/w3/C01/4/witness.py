"""Byte strings that differ somewhere other than in a common prefix/suffix cannot be diffed: TypeError."""
import sys

from graphtage import pydiff, StringNode
from graphtage.printer import DEFAULT_PRINTER

DEFAULT_PRINTER.quiet = True

CASES = [(b'ab', b'ac'), (b'abcd', b'xbyd'), ([b'ab'], [b'ba']), ('ab', b'ac')]
failures = []
for a_obj, b_obj in CASES:
    try:
        diff = pydiff.diff(a_obj, b_obj)
        _ = list(pydiff.build_tree(a_obj).get_all_edits(pydiff.build_tree(b_obj)))
    except TypeError as e:
        failures.append(f"pydiff.diff({a_obj!r}, {b_obj!r}) raised TypeError: {e}")
try:
    StringNode(b'ab').diff(StringNode(b'ac'))
except TypeError as e:
    failures.append(f"StringNode(b'ab').diff(StringNode(b'ac')) raised TypeError: {e}")

if failures:
    print("C01 violated (no edit script for byte strings):")
    for f in failures:
        print("  -", f)
    sys.exit(1)
print("ok")
sys.exit(0)
