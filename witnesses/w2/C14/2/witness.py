"""C14 witness 2: for *.yml, *.yaml, *.json5, *.plist, *.pkl and *.pickle the command and the library disagree.

The command recognises these names (it registers the suffixes with `mimetypes` inside `__main__.main`), while the
library call it is built on - `graphtage.get_filetype(path)` - raises ValueError for the very same path in a process
that has not run `main()`.  After `main()` has run once in the process the library answer silently changes.
"""
import json
import os
import pickle
import plistlib
import subprocess
import sys
import tempfile

import graphtage

A = {"a": [1, 2], "b": "x"}
B = {"a": [1, 3], "c": "x"}


def content(ext, obj):
    if ext in ('.yml', '.yaml', '.json5'):
        return json.dumps(obj).encode()  # JSON is valid YAML and valid JSON5
    if ext == '.plist':
        return plistlib.dumps(obj)
    return pickle.dumps(obj)


def main():
    failures = []
    with tempfile.TemporaryDirectory() as d:
        for ext in ('.yml', '.yaml', '.json5', '.plist', '.pkl', '.pickle'):
            fp, tp = os.path.join(d, 'from' + ext), os.path.join(d, 'to' + ext)
            with open(fp, 'wb') as f:
                f.write(content(ext, A))
            with open(tp, 'wb') as f:
                f.write(content(ext, B))
            # the library, in a process in which the command line's main() never ran (this one)
            try:
                lib = graphtage.get_filetype(fp).name
            except ValueError as e:
                lib = f"ValueError({e!s})"
            # the command
            p = subprocess.run([sys.executable, '-m', 'graphtage', '--no-status', '--no-color', fp, tp],
                               capture_output=True, stdin=subprocess.DEVNULL, env=os.environ)
            cli_diffed = p.returncode == 1 and p.stdout.strip() != b''
            if cli_diffed and lib.startswith('ValueError'):
                failures.append(f"{ext}: the command prints a diff (exit status 1, {len(p.stdout)} bytes) but "
                                f"graphtage.get_filetype({os.path.basename(fp)!r}) -> {lib.replace(d, '<tmp>')}")
            elif not cli_diffed and not lib.startswith('ValueError'):
                failures.append(f"{ext}: the library knows the type ({lib}) but the command fails: "
                                f"{p.stderr.decode(errors='replace')[-200:]}")
    if failures:
        print("VIOLATION: command and library disagree on the type of a file chosen by its name")
        for f in failures:
            print("  " + f)
        return 1
    print("ok: command and library agree on the suffixes")
    return 0


if __name__ == '__main__':
    sys.exit(main())
