"""C08 witness 1: the cost (and the pairing) of DictNode vs DictNode depends on the order in which the key/value pairs
were handed to the DictNode constructor, although the two DictNodes compare equal and hash equal."""
import itertools
import sys

from graphtage import DictNode, KeyValuePairNode, ListNode, StringNode
from graphtage.printer import DEFAULT_PRINTER
from graphtage.tree import CompoundEdit

DEFAULT_PRINTER.quiet = True


def build(obj):
    if isinstance(obj, dict):
        return DictNode([KeyValuePairNode(StringNode(k), build(v)) for k, v in obj.items()])
    elif isinstance(obj, list):
        return ListNode([build(v) for v in obj])
    else:
        return StringNode(obj)


def diff(from_tree, to_tree):
    edit = from_tree.edits(to_tree)
    while edit.valid and edit.tighten_bounds():
        pass
    bounds = edit.bounds()
    assert bounds.definitive(), bounds
    pairs = []
    stack = [edit]
    while stack:
        e = stack.pop()
        if isinstance(e, CompoundEdit):
            stack.extend(e.edits())
        elif e.bounds().upper_bound > 0:
            pairs.append((type(e).__name__, str(e.from_node), str(e.to_node)))
    return bounds.upper_bound, sorted(pairs)


def permutations_of(d):
    for items in itertools.permutations(d.items()):
        yield dict(items)


failed = False

# (1) total cost
A = {'b': 'aaa', 'cb': [['ac', 'a', 'bcbab']]}
B = {'ab': 'acb', 'ccaa': {}}
costs = {}
for a in permutations_of(A):
    for b in permutations_of(B):
        ta, tb = build(a), build(b)
        assert ta == build(A) and hash(ta) == hash(build(A)) and tb == build(B)
        for auto_match_keys in (True, False):
            ta.auto_match_keys = auto_match_keys
            cost, _ = diff(ta, tb)
            costs.setdefault(cost, []).append((list(a), list(b), auto_match_keys))
if len(costs) > 1:
    failed = True
    print("the total cost depends on the order of the keys:")
    for cost, which in sorted(costs.items()):
        print(f"  cost {cost}: (from key order, to key order, auto_match_keys) = {which}")

# (2) pairing, all edges definitive
pairings = {}
for a in permutations_of({'x': 'v', 'y': 'v'}):
    cost, pairs = diff(build(a), build({'p': 'v', 'q': 'v'}))
    pairings.setdefault((cost, tuple(pairs)), []).append(list(a))
if len(pairings) > 1:
    failed = True
    print("the pairing depends on the order of the keys:")
    for (cost, pairs), which in pairings.items():
        print(f"  from key orders {which}: cost {cost}, edits {pairs}")

sys.exit(1 if failed else 0)
