"""C01 - the edit script turns the first document into the second (partition shape of every compound edit).

R01a positional tail slice; R01b alignment index convention + back-trace + trimming; R01c multiset partition;
R01d keyed partition; R01e same-slot pairing; R01f on_diff coverage; R01g the script is pushed onto the edited copy.
"""
import ast

from .. import e1, symslice
from ..astx import code
from ..astx import self_attr, walk_no_nested, dotted, call_name, parent, dominating_conditions, flatten_conditions, \
    func_params, kwarg, ancestors
from ..core import norm, Inconclusive
from .. import pat


# ------------------------------------------------------------------------------------------------ R01a
def population_attr(fn_edits, ctor):
    """Attribute iterated by `for x in self.A: yield <ctor>(x ...)` in an edits() method."""
    for n in walk_no_nested(fn_edits):
        if isinstance(n, ast.For) and self_attr(n.iter):
            for y in ast.walk(n):
                if isinstance(y, ast.Yield) and isinstance(y.value, ast.Call) and call_name(y.value) == ctor:
                    return self_attr(n.iter)
    return None


def r01a(ctx):
    m = ctx.model
    ctx.rule("R01a", "positional list edit: under len(from) > len(to) the removed tail is from.children()[len(to):] "
                     "(slice start evaluated symbolically with Python's negative-index semantics), symmetrically for "
                     "inserts, empty otherwise; the paired part is zip(from, to)")
    q = m.need_class("FixedLengthSequenceEdit")
    init, ed = m.method(q, "__init__"), m.method(q, "edits")
    params = func_params(init.node)
    if len(params) < 3:
        raise Inconclusive("FixedLengthSequenceEdit.__init__ signature")
    frm, to = params[1], params[2]
    rem_attr, ins_attr = population_attr(ed.node, "Remove"), population_attr(ed.node, "Insert")
    if not rem_attr or not ins_attr:
        # edits() is written in a form the clauses below do not read.  One necessary condition of a *positional* edit can still be
        # decided: wherever an element of one side is paired with an element of the other, both are taken at the same index
        for g_ in (init, ed):
            for c in walk_no_nested(g_.node):
                pair = None
                if isinstance(c, ast.Call) and isinstance(c.func, ast.Attribute) and c.func.attr == "edits" and len(c.args) == 1:
                    pair = (c.func.value, c.args[0])
                elif isinstance(c, ast.Call) and call_name(c) in ("Match", "Replace") and len(c.args) >= 2:
                    pair = (c.args[0], c.args[1])
                if pair and all(isinstance(x, ast.Subscript) and not isinstance(x.slice, ast.Slice) for x in pair) \
                        and ast.unparse(pair[0].value) != ast.unparse(pair[1].value) and ast.unparse(pair[0].slice) != ast.unparse(pair[1].slice):
                    ctx.violation("R01a", g_.file, g_.short, c, "paired at the same index",
                                  f"`{norm(c, 80)}` pairs element `{norm(pair[0].slice, 30)}` of one list with element `{norm(pair[1].slice, 30)}` of the "
                                  f"other: with list edits switched off the k-th element may only be compared with the k-th, so this is an "
                                  f"alignment the options exclude ([1, 2, 3] -> [2, 3] reported as one removal instead of two changes and a removal)")
                    return
        raise Inconclusive("FixedLengthSequenceEdit.edits: cannot find the Remove/Insert populations")
    n = 0
    for attr, longer, shorter, what in ((rem_attr, frm, to, "removed"), (ins_attr, to, frm, "inserted")):
        stores = [s for s in walk_no_nested(init.node) if isinstance(s, (ast.Assign, ast.AnnAssign)) and
                  self_attr(s.targets[0] if isinstance(s, ast.Assign) else s.target) == attr]
        tails = 0
        from ..astx import inline_locals
        cases = []
        for s in stores:
            base = dominating_conditions(s)
            v0 = s.value
            if isinstance(v0, ast.IfExp):
                # `tail if len(a) > len(b) else ()`: one case per arm
                cases.append((s, v0.body, base + [(v0.test, True, None)]))
                cases.append((s, v0.orelse, base + [(v0.test, False, None)]))
            else:
                cases.append((s, v0, base))
        for s, v, conds in cases:
            v = inline_locals(init.node, v) if any(isinstance(x, ast.Name) and x.id not in (frm, to) for x in ast.walk(v)) else v
            facts = [(ast.unparse(inline_locals(init.node, t)), pol) for t, pol in flatten_conditions(conds)]
            gt = any(pol and t.replace(" ", "") in (f"len({longer})>len({shorter})", f"len({shorter})<len({longer})")
                     for t, pol in facts)
            if isinstance(v, ast.Subscript) and isinstance(v.slice, ast.Slice):
                n += 1
                tails += 1
                subj = symslice.atom(v.value)
                if subj != longer or not gt:
                    ctx.violation("R01a", init.file, "FixedLengthSequenceEdit.__init__", s, attr,
                                  f"the {what} tail `{norm(v)}` is not a slice of the longer list `{longer}` taken under "
                                  f"len({longer}) > len({shorter})")
                    continue
                if v.slice.upper is not None or v.slice.step is not None:
                    ctx.violation("R01a", init.file, "FixedLengthSequenceEdit.__init__", s, attr,
                                  f"the {what} tail `{norm(v)}` has a stop/step: the surplus tail must run to the end")
                    continue
                try:
                    start = symslice.tail_start(v, longer, shorter)
                except symslice.NonLinear as e:
                    ctx.inconclusive("R01a", init.file, "FixedLengthSequenceEdit.__init__", s, attr,
                                     f"slice start `{e}` is not linear in len() terms")
                    continue
                if start is None:
                    ctx.inconclusive("R01a", init.file, "FixedLengthSequenceEdit.__init__", s, attr,
                                     f"sign of slice start in `{norm(v)}` is ambiguous")
                elif start == symslice.Lin({shorter: 1}):
                    ctx.proved("R01a", init.file, "FixedLengthSequenceEdit.__init__", s, attr,
                               f"`{norm(v)}` starts at len({shorter}) = min(n, m): exactly the surplus tail is {what}")
                else:
                    ctx.violation("R01a", init.file, "FixedLengthSequenceEdit.__init__", s, attr,
                                  f"`{norm(v)}` evaluates to start index {start} under len({longer}) > len({shorter}); "
                                  f"expected len({shorter}). Elements that are already paired by position are {what} "
                                  f"as well (or surplus elements are dropped)")
            else:
                empty = isinstance(v, (ast.Tuple, ast.List)) and not v.elts
                if not empty and tails:
                    ctx.violation("R01a", init.file, "FixedLengthSequenceEdit.__init__", s, f"{attr} (no surplus)",
                                  f"self.{attr} = {norm(v)} outside the longer-list branch: nothing may be {what} then")
        if tails == 0:
            ctx.inconclusive("R01a", init.file, "FixedLengthSequenceEdit.__init__", init.node, f"{attr} tails=0",
                             f"self.{attr} is no longer built as a slice of the longer list; the positional-tail clause "
                             f"cannot be decided for this shape")
        elif tails > 1:
            ctx.violation("R01a", init.file, "FixedLengthSequenceEdit.__init__", init.node, f"{attr} tails={tails}",
                          f"expected exactly one surplus-tail assignment to self.{attr}, found {tails}")
    # paired part: zip(from, to) with from_child.edits(to_child)
    zips = [c for c in walk_no_nested(init.node) if isinstance(c, ast.Call) and call_name(c) == "zip"]
    ok = False
    for z in zips:
        if [symslice.atom(a) for a in z.args] == [frm, to]:
            comp = parent(parent(z)) if isinstance(parent(z), ast.comprehension) else None
            if isinstance(comp, (ast.ListComp, ast.GeneratorExp)) and isinstance(comp.elt, ast.Call) \
                    and isinstance(comp.elt.func, ast.Attribute) and comp.elt.func.attr == "edits":
                tgt = parent(z).target
                if isinstance(tgt, ast.Tuple) and len(tgt.elts) == 2 and \
                        dotted(comp.elt.func.value) == tgt.elts[0].id and dotted(comp.elt.args[0]) == tgt.elts[1].id:
                    ok = True
    n += 1
    if ok:
        ctx.proved("R01a", init.file, "FixedLengthSequenceEdit.__init__", init.node, "positional pairs",
                   f"sub-edits are from_child.edits(to_child) over zip({frm}, {to})")
    elif any(isinstance(c, ast.Call) and (call_name(c) or "").endswith("zip_longest") for c in walk_no_nested(init.node)):
        ctx.inconclusive("R01a", init.file, "FixedLengthSequenceEdit.__init__", init.node, "positional pairs",
                         "pairs are produced by zip_longest; this shape is not modelled")
    else:
        ctx.violation("R01a", init.file, "FixedLengthSequenceEdit.__init__", init.node, "positional pairs",
                      f"the paired part is not `a.edits(b) for a, b in zip({frm}, {to})`: elements are not paired strictly by position")
    ctx.floor("R01a", n, 2, "positional-edit obligations")


# ------------------------------------------------------------------------------------------------ R01b
def _idx(e):
    """('row'|'col', offset) for row / row - 1 / col - 1 / 0 expressions; None otherwise."""
    if isinstance(e, ast.Name):
        return (e.id, 0)
    if isinstance(e, ast.Constant) and isinstance(e.value, int):
        return ("const", e.value)
    if isinstance(e, ast.BinOp) and isinstance(e.op, ast.Sub) and isinstance(e.left, ast.Name) \
            and isinstance(e.right, ast.Constant):
        return (e.left.id, -e.right.value)
    return None


def r01b(ctx):
    m = ctx.model
    ctx.rule("R01b", "EditDistance: the cell->edit table written by _add_node and the step table read by _best_match "
                     "agree (diagonal carries cell[row][col], a row-only step the Insert of that row, a column-only step "
                     "the Remove of that column); the back-trace starts at the last cell and follows the returned "
                     "predecessor; both sequences are trimmed by the same equal prefix/suffix, re-emitted as matches")
    q = m.need_class("EditDistance")
    init, add, best, edits = (m.method(q, x) for x in ("__init__", "_add_node", "_best_match", "edits"))
    f = init.file
    ip = func_params(init.node)
    if len(ip) < 5:
        raise Inconclusive("EditDistance.__init__ signature")
    from_seq_p, to_seq_p = ip[3], ip[4]
    # -- trimming (inline loops or a helper that pairs items while they are equal; locals are seen through)
    from .. import scans
    from ..astx import inline_locals
    pre = suf = None
    suf_scan = None
    n_ob = 0
    for sc in scans.equal_pair_scans(m, q, init):
        lst = sc["attr"]
        n_ob += 1
        if sc["guarded"] and sc["stops"]:
            ctx.proved("R01b", f, "EditDistance.__init__", sc["node"], f"trim {lst}",
                       f"pairs enter self.{lst} only when equal and the scan stops at the first difference ({sc['via']})")
        else:
            ctx.violation("R01b", f, "EditDistance.__init__", sc["node"], f"trim {lst}",
                          f"self.{lst} receives pairs that are not established equal (or the scan does not stop at the "
                          f"first unequal pair): trimmed elements are later reported as zero-cost matches")
        rev = all(isinstance(x, ast.Call) and call_name(x) == "reversed" for x in sc["args"])
        if rev:
            suf = lst
            suf_scan = sc
        else:
            pre = lst
            if sc["bound"] is not None:
                ctx.violation("R01b", f, "EditDistance.__init__", sc["node"], f"trim {lst} bounded",
                              f"the shared-prefix scan is cut off by `{norm(sc['bound'], 40)}`")
    if pre and suf:
        # the suffix scan must stay clear of the prefix on BOTH sides, otherwise an element is trimmed twice
        node, bound = suf_scan["node"], suf_scan["bound"]
        n_ob += 1
        srcs = []
        clear = True
        for x in suf_scan["args"]:
            inner = x.args[0] if x.args else None
            if isinstance(inner, ast.Subscript) and isinstance(inner.slice, ast.Slice) and inner.slice.upper is None \
                    and inner.slice.lower is not None and \
                    ast.unparse(inline_locals(init.node, inner.slice.lower)).replace(" ", "") == f"len(self.{pre})":
                srcs.append(dotted(inner.value))
            else:
                srcs.append(dotted(inner))
                clear = False
        if not clear and bound is not None:
            b = ast.unparse(inline_locals(init.node, bound)).replace(" ", "")
            fs, ts = from_seq_p, to_seq_p
            clear = b in (f"min(len({fs}),len({ts}))-len(self.{pre})", f"min(len({ts}),len({fs}))-len(self.{pre})")
        shown = node.iter if isinstance(node, ast.For) else node.value
        if clear and sorted(srcs) == sorted([from_seq_p, to_seq_p]):
            ctx.proved("R01b", f, "EditDistance.__init__", node, "suffix scan clear of the prefix",
                       f"the suffix scan covers only what follows the shared prefix in both sequences")
        else:
            ctx.violation("R01b", f, "EditDistance.__init__", node, "suffix scan clear of the prefix",
                          f"the shared-suffix scan `{norm(shown, 90)}` is not confined to the part of BOTH sequences after the "
                          f"shared prefix: when the shorter sequence is a prefix-and-suffix of the longer one (one element "
                          f"dropped from a run of equal neighbours) the suffix overlaps the prefix, an element is trimmed "
                          f"twice and the remaining difference is lost (both documents render as identical)")
    if not pre or not suf:
        # the scans are written in a form this analysis does not read (index loops, takewhile, helpers).  One necessary condition
        # can still be decided: trimming treats the two sequences alike - every use of one has a mirror-image use of the other
        odd = _trim_asymmetry(m, init, from_seq_p, to_seq_p)
        if odd is not None:
            node_, mine, side = odd
            ctx.violation("R01b", f, "EditDistance.__init__", node_, "trimming treats both sequences alike",
                          f"the prefix/suffix trimming uses the {side} sequence as `{mine}` and the other sequence in no matching way: a bound "
                          f"or slice that accounts for the shared prefix on one side only lets the suffix overlap the prefix on the other "
                          f"(an element trimmed twice, the remaining difference lost)")
            return
        raise Inconclusive("EditDistance.__init__: prefix/suffix trimming loops not recognised")
    for attr, src in (("from_seq", from_seq_p), ("to_seq", to_seq_p)):
        st = [s for s in walk_no_nested(init.node) if isinstance(s, (ast.Assign, ast.AnnAssign))
              and self_attr(s.targets[0] if isinstance(s, ast.Assign) else s.target) == attr]
        n_ob += 1
        good = False
        if len(st) == 1 and isinstance(st[0].value, ast.Subscript) and isinstance(st[0].value.slice, ast.Slice):
            sl = st[0].value
            try:
                lo = symslice.lin(inline_locals(init.node, sl.slice.lower)) if sl.slice.lower is not None else symslice.Lin()
                hi = symslice.lin(inline_locals(init.node, sl.slice.upper)) if sl.slice.upper is not None else None
                good = dotted(sl.value) == src and lo == symslice.Lin({f"self.{pre}": 1}) and \
                    hi == symslice.Lin({src: 1}) - symslice.Lin({f"self.{suf}": 1})
            except symslice.NonLinear:
                good = False
        if good:
            ctx.proved("R01b", f, "EditDistance.__init__", st[0], f"self.{attr} trimmed",
                       f"self.{attr} = {src}[len({pre}) : len({src}) - len({suf})]")
        else:
            ctx.violation("R01b", f, "EditDistance.__init__", st[0] if st else init.node, f"self.{attr} trimmed",
                          f"self.{attr} is not {src} minus exactly the shared prefix ({pre}) and suffix ({suf}): elements "
                          f"would be dropped from, or duplicated in, the script")
    # -- _add_node cell table
    cell = {}
    _st, _b = pat.first("self.edit_matrix[A][B] = E", add.node)
    cell_var = _b["E"] if _b else "edit"
    for s in walk_no_nested(add.node):
        if isinstance(s, ast.Assign) and isinstance(s.targets[0], ast.Name) and s.targets[0].id == cell_var \
                and isinstance(s.value, ast.Call):
            facts = [ast.unparse(t).replace(" ", "") for t, pol in flatten_conditions(dominating_conditions(s)) if pol]
            nfacts = [ast.unparse(t).replace(" ", "") for t, pol in flatten_conditions(dominating_conditions(s)) if not pol]
            c = s.value
            cn = call_name(c)
            if cn == "Remove":
                cell["remove"] = (s, kwarg(c, "to_remove", 0), facts, nfacts)
            elif cn == "Insert":
                cell["insert"] = (s, kwarg(c, "to_insert", 0), facts, nfacts)
            elif isinstance(c.func, ast.Attribute) and c.func.attr == "edits":
                cell["diag"] = (s, c, facts, nfacts)
    rp, cp = func_params(add.node)[1:3]
    want = {"remove": (f"self.from_seq[{cp} - 1]", f"{rp}==0"), "insert": (f"self.to_seq[{rp} - 1]", f"{cp}==0")}
    for k in ("remove", "insert"):
        n_ob += 1
        if k not in cell:
            ctx.violation("R01b", f, "EditDistance._add_node", add.node, f"boundary {k}", f"no {k} boundary cell is created")
            continue
        s, arg, facts, nfacts = cell[k]
        if ast.unparse(arg) == want[k][0] and want[k][1] in facts:
            ctx.proved("R01b", f, "EditDistance._add_node", s, f"boundary {k}",
                       f"cell under {want[k][1]} is {k.capitalize()}({want[k][0]})")
        else:
            ctx.violation("R01b", f, "EditDistance._add_node", s, f"boundary {k}",
                          f"boundary cell {k}: got {k.capitalize()}({ast.unparse(arg)}) under {facts}; expected "
                          f"{want[k][0]} under {want[k][1]} (row r consumes to_seq[r-1], column c consumes from_seq[c-1])")
    n_ob += 1
    if "diag" in cell:
        s, c, facts, nfacts = cell["diag"]
        recv, arg = ast.unparse(c.func.value), ast.unparse(c.args[0]) if c.args else ""
        if recv == f"self.from_seq[{cp} - 1]" and arg == f"self.to_seq[{rp} - 1]":
            ctx.proved("R01b", f, "EditDistance._add_node", s, "interior cell",
                       f"interior cell [{rp}][{cp}] is from_seq[{cp}-1].edits(to_seq[{rp}-1])")
        else:
            ctx.violation("R01b", f, "EditDistance._add_node", s, "interior cell",
                          f"interior cell pairs {recv} with {arg}; expected self.from_seq[{cp} - 1].edits(self.to_seq[{rp} - 1])")
    else:
        ctx.violation("R01b", f, "EditDistance._add_node", add.node, "interior cell", "no interior cell edit is created")
    # matrix dimensions: rows ~ to_seq, cols ~ from_seq
    dims = [s for s in walk_no_nested(init.node) if isinstance(s, (ast.Assign, ast.AnnAssign))
            and self_attr(s.targets[0] if isinstance(s, ast.Assign) else s.target) == "edit_matrix"]
    n_ob += 1
    dtxt = ast.unparse(dims[0].value).replace(" ", "") if dims else ""
    if "*(len(self.from_seq)+1)" in dtxt and "range(len(self.to_seq)+1)" in dtxt:
        ctx.proved("R01b", f, "EditDistance.__init__", dims[0], "matrix shape", "rows = len(to_seq)+1, columns = len(from_seq)+1")
    else:
        ctx.violation("R01b", f, "EditDistance.__init__", dims[0] if dims else init.node, "matrix shape",
                      f"edit_matrix is not (len(to_seq)+1) rows x (len(from_seq)+1) columns: {dtxt[:80]}")
    # -- _best_match step table
    r2, c2 = func_params(best.node)[1:3]
    steps = []
    for s in walk_no_nested(best.node):
        tri = None
        if isinstance(s, ast.Return) and isinstance(s.value, ast.Tuple) and len(s.value.elts) == 3 \
                and not all(isinstance(e, ast.Name) for e in s.value.elts):
            tri = s.value.elts
        elif isinstance(s, ast.Assign) and isinstance(s.targets[0], ast.Tuple) and len(s.targets[0].elts) == 3 \
                and isinstance(s.value, ast.Tuple) and len(s.value.elts) == 3:
            tri = s.value.elts
        if tri is not None:
            steps.append((s, tri))
    ctx.floor("R01b-steps", len(steps), 3, "predecessor triples in _best_match")
    for s, (br, bc, ed) in steps:
        n_ob += 1
        ir, ic = _idx(br), _idx(bc)
        from ..astx import resolve_local as _rl
        ed = _rl(best.node, ed)       # `diag_edit = self.edit_matrix[row][col]` read as the cell it names
        etxt = ast.unparse(ed).replace(" ", "")
        dr = ir[1] if ir and ir[0] == r2 else (0 - 0 if ir and ir[0] == "const" and ir[1] == 0 else None)
        dc = ic[1] if ic and ic[0] == c2 else None
        facts = [ast.unparse(t).replace(" ", "") for t, pol in flatten_conditions(dominating_conditions(s)) if pol]
        row0 = f"{r2}==0" in facts
        col0 = f"{c2}==0" in facts
        if row0:
            exp = (f"self.edit_matrix[0][{c2}]", "const0", -1)
            ok = ir == ("const", 0) and ic == (c2, -1) and etxt == exp[0]
            want_txt = f"(0, {c2} - 1, self.edit_matrix[0][{c2}])"
        elif col0:
            ok = ir == (r2, -1) and ic == (c2, 0) and etxt == f"self.edit_matrix[{r2}][0]"
            want_txt = f"({r2} - 1, {c2}, self.edit_matrix[{r2}][0])"
        else:
            if ir == (r2, -1) and ic == (c2, -1):
                ok, want_txt = etxt == f"self.edit_matrix[{r2}][{c2}]", f"diagonal carries self.edit_matrix[{r2}][{c2}]"
            elif ir == (r2, -1) and ic == (c2, 0):
                ok, want_txt = etxt == f"self.edit_matrix[{r2}][0]", f"a row-only step carries the Insert self.edit_matrix[{r2}][0]"
            elif ir == (r2, 0) and ic == (c2, -1):
                ok, want_txt = etxt == f"self.edit_matrix[0][{c2}]", f"a column-only step carries the Remove self.edit_matrix[0][{c2}]"
            else:
                ok, want_txt = False, "a step must decrease row and/or column by exactly one"
        if ok:
            ctx.proved("R01b", f, "EditDistance._best_match", s, f"step ({ast.unparse(br)}, {ast.unparse(bc)})",
                       f"step to ({ast.unparse(br)}, {ast.unparse(bc)}) carries {ast.unparse(ed)}")
        else:
            ctx.violation("R01b", f, "EditDistance._best_match", s, f"step ({ast.unparse(br)}, {ast.unparse(bc)})",
                          f"incoherent step: predecessor ({ast.unparse(br)}, {ast.unparse(bc)}) with edit {ast.unparse(ed)}; "
                          f"expected {want_txt}. The back-trace would consume an element twice or not at all")
    # -- back-trace in edits()
    src = code(edits.node).replace(" ", "")
    n_ob += 1
    _w, wb = pat.first("R > 0 or C > 0", edits.node)
    loop = next((x for x in walk_no_nested(edits.node) if isinstance(x, ast.While) and wb and x.test is _w), None)
    checks = {"loops while either index is positive": loop is not None}
    if loop is not None:
        R, C = wb["R"], wb["C"]
        checks["starts at the last cell"] = pat.has(f"{R}, {C} = len(self.to_seq), len(self.from_seq)", edits.node, stmts=True)
        _s, sb = pat.first(f"P, Q, E = self._best_match({R}, {C})", loop)
        checks["asks _best_match for the predecessor of the current cell"] = sb is not None
        if sb:
            checks["moves to the returned predecessor"] = pat.has(f"{R}, {C} = {sb['P']}, {sb['Q']}", loop, stmts=True)
            checks["appends the returned edit"] = bool(pat.find_expr(f"L.append({sb['E']})", loop))
    else:
        checks["starts at the last cell"] = False
    bad = [k for k, v in checks.items() if not v]
    if bad:
        ctx.violation("R01b", f, "EditDistance.edits", edits.node, "back-trace",
                      f"the back-trace no longer {', '.join(bad)}")
    else:
        ctx.proved("R01b", f, "EditDistance.edits", edits.node, "back-trace", "; ".join(checks))
    # -- emitted order: prefix matches, reversed(back-trace incl. suffix first)
    n_ob += 1
    rets = [r for r in walk_no_nested(edits.node) if isinstance(r, ast.Return) and r.value is not None]
    rtxt = ast.unparse(rets[-1].value).replace(" ", "") if rets else ""
    order_ok = rtxt.startswith("itertools.chain((Match(") and f"self.{pre})" in rtxt and "reversed(self.__edits)" in rtxt \
        and rtxt.index(f"self.{pre}") < rtxt.index("reversed(self.__edits)")
    sfx = [c for c in walk_no_nested(edits.node) if isinstance(c, ast.ListComp) and self_attr(c.generators[0].iter) == suf]
    suffix_first = bool(sfx) and loop is not None and sfx[0].lineno < loop.lineno
    if order_ok and suffix_first:
        ctx.proved("R01b", f, "EditDistance.edits", rets[-1], "emission order",
                   "prefix matches, then the reversed back-trace whose first entries are the suffix matches")
    else:
        ctx.violation("R01b", f, "EditDistance.edits", rets[-1] if rets else edits.node, "emission order",
                      "the script is not (shared prefix matches, reversed back-trace, shared suffix matches): list order is not preserved")
    ctx.floor("R01b", n_ob, 10, "alignment obligations")


# ------------------------------------------------------------------------------------------------ R01c
def r01c(ctx):
    m = ctx.model
    ctx.rule("R01c", "MultiSetEdit partitions both multisets: to_insert = T - F, to_remove = F - T, matched = F & T over the "
                     "same operands; the key pre-match removes the same count from both sides as edits it records; the "
                     "matcher runs over exactly the leftovers; edits() yields all four groups and the unmatched remainder")
    q = m.need_class("MultiSetEdit")
    init, ed = m.method(q, "__init__"), m.method(q, "edits")
    f = init.file
    p = func_params(init.node)
    F, T = p[3], p[4]
    vals = {}
    for s in walk_no_nested(init.node):
        if isinstance(s, ast.Assign):
            t = s.targets[0]
            nm = self_attr(t) or (t.id if isinstance(t, ast.Name) else None)
            if nm and isinstance(s.value, ast.BinOp):
                vals[nm] = (s, s.value)
    n = 0

    def binop(nm, op, l, r, what):
        nonlocal n
        n += 1
        if nm not in vals:
            ctx.violation("R01c", f, "MultiSetEdit.__init__", init.node, what, f"{what}: no `{nm} = ...` set expression found")
            return
        s, v = vals[nm]
        if isinstance(v.op, op) and dotted(v.left) == l and dotted(v.right) == r:
            ctx.proved("R01c", f, "MultiSetEdit.__init__", s, what, f"{nm} = {ast.unparse(v)}")
        else:
            ctx.violation("R01c", f, "MultiSetEdit.__init__", s, what,
                          f"{nm} = {ast.unparse(v)}; expected {l} {'-' if op is ast.Sub else '&'} {r}. Elements would be "
                          f"lost from or duplicated in the script")
    binop("to_insert", ast.Sub, T, F, "to_insert = T - F")
    binop("to_remove", ast.Sub, F, T, "to_remove = F - T")
    tm = [k for k, (s, v) in vals.items() if isinstance(v.op, ast.BitAnd)]
    n += 1
    if tm and {dotted(vals[tm[0]][1].left), dotted(vals[tm[0]][1].right)} == {F, T}:
        ctx.proved("R01c", f, "MultiSetEdit.__init__", vals[tm[0]][0], "matched = F & T", f"{tm[0]} = {ast.unparse(vals[tm[0]][1])}")
    else:
        ctx.violation("R01c", f, "MultiSetEdit.__init__", init.node, "matched = F & T",
                      "the multiset of identical elements is not from_set & to_set")
    # the key pre-match may live in a same-class helper that is handed both collections and returns the reduced ones
    # (`from_set, to_set = self._match_equal_keys(from_set, to_set)`): its clauses are then read there, under its names
    init_node_full, F0, T0 = init.node, F, T
    for a_ in walk_no_nested(init.node):
        if isinstance(a_, ast.Assign) and isinstance(a_.value, ast.Call) and self_attr(a_.value.func) \
                and {F, T} <= {dotted(x) for x in a_.value.args}:
            h_ = m.method(q, self_attr(a_.value.func))
            if h_ is not None:
                hp_ = [p_ for p_ in func_params(h_.node) if p_ != "self"]
                pos_ = {dotted(x): k_ for k_, x in enumerate(a_.value.args)}
                if pos_[F] < len(hp_) and pos_[T] < len(hp_):
                    init = h_
                    F, T = hp_[pos_[F]], hp_[pos_[T]]
    where_pm = f"MultiSetEdit.{init.node.name}"
    # in-place mutation of the operands is only allowed on private copies
    copies = {s.targets[0].id for s in walk_no_nested(init.node) if isinstance(s, ast.Assign) and isinstance(s.targets[0], ast.Name)
              and isinstance(s.value, ast.Call) and (call_name(s.value) or "").endswith("Counter")
              and s.value.args and dotted(s.value.args[0]) == s.targets[0].id}
    for s in walk_no_nested(init.node):
        tgt = None
        if isinstance(s, ast.AugAssign):
            tgt = s.target
        elif isinstance(s, ast.Assign) and isinstance(s.targets[0], ast.Subscript):
            tgt = s.targets[0]
        if tgt is None:
            continue
        root = tgt.value if isinstance(tgt, ast.Subscript) else tgt
        d = dotted(root)
        if d in (F, T):
            n += 1
            facts = [ast.unparse(t) for t, pol in flatten_conditions(dominating_conditions(s)) if pol]
            copied_here = d in copies and any(
                isinstance(c, ast.Assign) and isinstance(c.targets[0], ast.Name) and c.targets[0].id == d
                and c.lineno < s.lineno and _same_guard(c, s) for c in walk_no_nested(init.node))
            if copied_here:
                ctx.proved("R01c", f, "MultiSetEdit.__init__", s, f"in-place {norm(tgt)}",
                           f"`{d}` is a private copy made under the same guard before it is modified")
            else:
                ctx.violation("R01c", f, "MultiSetEdit.__init__", s, f"in-place {norm(tgt)}",
                              f"`{norm(s)}` modifies `{d}` in place, but on this path it may still be the caller's "
                              f"collection (the node's own children): the comparison would alter an input tree and a "
                              f"second comparison sees different children")
    # pre-match bookkeeping: the number of recorded kvp edits equals what is subtracted from both sides
    pm = []
    n += 1
    _n1, nb = pat.first(f"N = min({F}[A], {T}[B])", init.node)
    pm = [x for x in walk_no_nested(init.node) if nb and x is _n1] or pm
    okpm = False
    if nb:
        N, A_, B_ = nb["N"], nb["A"], nb["B"]
        okpm = bool(pat.find_expr(f"range({N})", init.node)) and pat.has(f"{T}[{B_}] -= {N}", init.node, stmts=True) \
            and (pat.has(f"{F}[{A_}] -= {N}", init.node, stmts=True) or pat.has(f"{F}[X] -= Y", init.node, stmts=True))
    if pm and okpm:
        ctx.proved("R01c", f, "MultiSetEdit.__init__", pm[0], "key pre-match bookkeeping",
                   "num_matched = min(count_f, count_t) edits are recorded and num_matched is subtracted from both sides")
    elif pm:
        ctx.violation("R01c", f, "MultiSetEdit.__init__", pm[0], "key pre-match bookkeeping",
                      "the key pre-match does not subtract from both multisets exactly the number of pair edits it records")
    else:
        ctx.inconclusive("R01c", f, "MultiSetEdit.__init__", init.node, "key pre-match bookkeeping", "pre-match block not recognised")
    # every (f, t) pre-match requires f.key == t.key, and the scan considers every candidate
    n += 1
    keyeq = [c for c, _b2 in pat.find_expr("A.key == B.key", init.node)]
    early = [b for b in walk_no_nested(init.node) if isinstance(b, (ast.Break, ast.Continue)) and any(
        isinstance(t, ast.Compare) and any(isinstance(o, (ast.Lt, ast.Gt, ast.LtE, ast.GtE)) for o in t.ops)
        for t, pol in flatten_conditions(dominating_conditions(b)))]
    # ... and *only* f.key == t.key decides: any further condition on the two pairs (a type comparison of the keys, say) lets a
    # key that is in both mappings fall through to the matcher - diff() works on an edited copy of the from-tree, whose nodes are
    # instances of generated Edited<Class> subclasses, so `type(f.key) is type(t.key)` never holds there
    narrowed = []
    if nb and pm:
        pairvars = {nb["A"], nb["B"]}
        for t_, pol_ in flatten_conditions(dominating_conditions(pm[0])):
            txt_ = ast.unparse(t_).replace(" ", "")
            names_ = {x.id for x in ast.walk(t_) if isinstance(x, ast.Name)}
            if not (names_ & pairvars):
                continue
            if pol_ and txt_ in (f"{nb['A']}.key=={nb['B']}.key", f"{nb['B']}.key=={nb['A']}.key"):
                continue
            if pol_ and isinstance(t_, ast.Call) and call_name(t_) == "isinstance" and "KeyValuePairNode" in txt_:
                continue
            if isinstance(t_, ast.Compare) and len(t_.ops) == 1 and isinstance(t_.ops[0], (ast.Is, ast.IsNot)) \
                    and isinstance(t_.comparators[0], ast.Constant) and t_.comparators[0].value is None:
                continue        # `t is not None` after `t = next((... if f.key == t.key), None)`: a presence test, not a condition on the pair
            narrowed.append((t_, pol_))
    if narrowed:
        t_, pol_ = narrowed[0]
        ctx.violation("R01c", f, "MultiSetEdit.__init__", t_, "pre-match by key equality",
                      f"the key pre-match also requires `{'' if pol_ else 'not '}{norm(t_, 60)}`: two pairs with equal keys that fail it are not "
                      f"pre-matched, and under the `auto` strategy the key is then paired with whatever the matcher finds cheapest "
                      f"(TreeNode.diff() compares Edited<Class> copies with plain nodes: their types never coincide)")
    elif keyeq and not early:
        ctx.proved("R01c", f, "MultiSetEdit.__init__", keyeq[0], "pre-match by key equality",
                   "pairs are pre-matched only under f.key == t.key and no ordering shortcut skips candidates")
    elif early:
        ctx.violation("R01c", f, "MultiSetEdit.__init__", early[0], "pre-match by key equality",
                      "the key pre-match scan is cut short by an ordering comparison: keys are not totally ordered "
                      "(mixed types), so a key present in both mappings can be skipped and is then paired with another key")
    else:
        ctx.violation("R01c", f, "MultiSetEdit.__init__", init.node, "pre-match by key equality",
                      "the key pre-match no longer requires f.key == t.key")
    # matcher over the leftovers
    init = m.method(q, "__init__")
    F, T = F0, T0
    n += 1
    mc = [c for c in walk_no_nested(init.node) if isinstance(c, ast.Call) and (call_name(c) or "").endswith("WeightedBipartiteMatcher")]
    if mc and ast.unparse(kwarg(mc[0], "from_nodes", 0)).replace(" ", "") == "self.to_remove.elements()" \
            and ast.unparse(kwarg(mc[0], "to_nodes", 1)).replace(" ", "") == "self.to_insert.elements()":
        ctx.proved("R01c", f, "MultiSetEdit.__init__", mc[0], "matcher operands", "matcher(from=to_remove.elements(), to=to_insert.elements())")
    else:
        ctx.violation("R01c", f, "MultiSetEdit.__init__", mc[0] if mc else init.node, "matcher operands",
                      "the bipartite matcher is not built over (to_remove.elements(), to_insert.elements())")
    # edits(): four groups + leftovers
    srcs = {s.ident: s for s in e1.extract(ed.node, "edits")}
    n += 1
    need = ["coll:_edits", "coll:_matched_kvp_edits", "via:self._matcher"]
    miss = [x for x in need if x not in srcs]
    consts = [k for k in srcs if k.startswith("const:")]
    import re as _re
    want_r = next((k for k in srcs if _re.fullmatch(r"const:Remove\[\(self\.to_remove - \w+\)\.elements\(\)\]", k)), "const:Remove[(self.to_remove - <matched>).elements()]")
    want_i = next((k for k in srcs if _re.fullmatch(r"const:Insert\[\(self\.to_insert - \w+\)\.elements\(\)\]", k)), "const:Insert[(self.to_insert - <matched>).elements()]")
    if miss or want_r not in srcs or want_i not in srcs:
        ctx.violation("R01c", ed.file, "MultiSetEdit.edits", ed.node, "edits() groups",
                      f"edits() must yield identical matches, key pre-matches, matcher pairs and the unmatched remainder of "
                      f"both sides; missing {miss + [w for w in (want_r, want_i) if w not in srcs]} (has {sorted(srcs)})")
    elif True and [st_ for nm_ in (_re.search(r"- (\w+)\)", want_r), _re.search(r"- (\w+)\)", want_i)) if nm_
                   for st_ in walk_no_nested(ed.node)
                   if ((isinstance(st_, ast.Assign) and isinstance(st_.targets[0], ast.Subscript) and dotted(st_.targets[0].value) == nm_.group(1))
                       or (isinstance(st_, ast.AugAssign) and isinstance(st_.target, ast.Subscript) and dotted(st_.target.value) == nm_.group(1)
                           and not (isinstance(st_.op, ast.Add) and isinstance(st_.value, ast.Constant) and st_.value.value == 1)))]:
        bad_ = [st_ for nm_ in (_re.search(r"- (\w+)\)", want_r), _re.search(r"- (\w+)\)", want_i)) if nm_
                for st_ in walk_no_nested(ed.node)
                if ((isinstance(st_, ast.Assign) and isinstance(st_.targets[0], ast.Subscript) and dotted(st_.targets[0].value) == nm_.group(1))
                    or (isinstance(st_, ast.AugAssign) and isinstance(st_.target, ast.Subscript) and dotted(st_.target.value) == nm_.group(1)
                        and not (isinstance(st_.op, ast.Add) and isinstance(st_.value, ast.Constant) and st_.value.value == 1)))][0]
        ctx.violation("R01c", ed.file, "MultiSetEdit.edits", bad_, "edits() groups",
                      f"`{norm(bad_, 60)}`: the tally of members the matcher paired must grow by exactly one per pair; any other update "
                      f"takes more (or fewer) copies of a repeated member out of the remainder than were paired, and the surplus "
                      f"copies are neither matched, removed nor inserted")
    else:
        ctx.proved("R01c", ed.file, "MultiSetEdit.edits", ed.node, "edits() groups",
                   "yields _edits, _matched_kvp_edits, matcher pairs, Remove over to_remove - matched, Insert over to_insert - matched")
    ctx.floor("R01c", n, 6, "multiset partition obligations")


def _same_guard(a, b):
    ga = sorted(ast.unparse(t) + str(p) for t, p in flatten_conditions(dominating_conditions(a)))
    gb = sorted(ast.unparse(t) + str(p) for t, p in flatten_conditions(dominating_conditions(b)))
    return all(x in gb for x in ga)


# ------------------------------------------------------------------------------------------------ R01d
def _trim_asymmetry(m, init, fs, ts):
    """Side symmetry of the trimming region of EditDistance.__init__ (the statements before self.from_seq / self.to_seq are
    assigned, and the helpers they hand both sequences to): each occurrence of a sequence (or of a local computed from that
    sequence alone) is described by the largest enclosing expression / statement that does not mention the other sequence, with
    the sequence replaced by a placeholder; the two multisets of descriptions must be equal.  (node, description, side) of an
    unmatched use, or None."""
    import collections
    from ..astx import _set_parents, clone

    def region_of(fn, a, b, stop_at_seq_assign):
        body = []
        for st in fn.body:
            if stop_at_seq_assign and isinstance(st, (ast.Assign, ast.AnnAssign)) and \
                    self_attr(st.targets[0] if isinstance(st, ast.Assign) else st.target) in ("from_seq", "to_seq"):
                break
            body.append(st)
        return body

    def describe(stmts, a, b, depth=0):
        sides = {a: "A", b: "B"}
        sigs = {"A": [], "B": []}
        # locals computed from one side alone belong to that side
        changed = True
        while changed:
            changed = False
            for st in stmts:
                for x in ast.walk(st):
                    if isinstance(x, ast.Assign) and len(x.targets) == 1 and isinstance(x.targets[0], ast.Name) and x.targets[0].id not in sides:
                        used = {sides[n.id] for n in ast.walk(x.value) if isinstance(n, ast.Name) and n.id in sides}
                        if len(used) == 1:
                            sides[x.targets[0].id] = used.pop()
                            changed = True

        def mentions(node, side):
            return any(isinstance(n, ast.Name) and sides.get(n.id) == side for n in ast.walk(node))
        for st in stmts:
            for n in ast.walk(st):
                if not (isinstance(n, ast.Name) and n.id in sides and isinstance(n.ctx, ast.Load)):
                    continue
                side = sides[n.id]
                other = "B" if side == "A" else "A"
                e = n
                while getattr(e, "_parent", None) is not None and not isinstance(e, ast.stmt) and not mentions(e._parent, other) \
                        and not isinstance(e._parent, (ast.FunctionDef, ast.For, ast.While, ast.If, ast.With, ast.Try)):
                    e = e._parent
                c = clone(e)
                for y in ast.walk(c):
                    if isinstance(y, ast.Name):
                        if sides.get(y.id) == side:
                            y.id = "_"
                        elif isinstance(y.ctx, ast.Store):
                            y.id = "$"
                txt = ast.unparse(c) if not isinstance(c, ast.stmt) else ast.unparse(c).split("\n")[0]
                sigs[side].append((txt, n))
            # helpers that receive both sequences
            for c in ast.walk(st):
                if isinstance(c, ast.Call) and depth < 2:
                    pos = {sides[x.id]: i for i, x in enumerate(c.args) if isinstance(x, ast.Name) and x.id in (a, b)}
                    if len(pos) == 2:
                        nm = (dotted(c.func) or "").rsplit(".", 1)[-1]
                        h = m.functions.get(f"{init.module}.{nm}") or (m.method(init.cls, nm) if init.cls else None)
                        if h is not None and h.node is not init.node:
                            ps = func_params(h.node)
                            off = 1 if ps and ps[0] in ("self", "cls") and not isinstance(c.func, ast.Name) else 0
                            try:
                                sub = describe(h.node.body, ps[pos["A"] + off], ps[pos["B"] + off], depth + 1)
                            except IndexError:
                                continue
                            for k in sub:
                                sigs[k] += sub[k]
        return sigs
    sigs = describe(region_of(init.node, fs, ts, True), fs, ts)
    ca = collections.Counter(t for t, _ in sigs["A"])
    cb = collections.Counter(t for t, _ in sigs["B"])
    if ca == cb:
        return None
    for (txt, n) in sigs["A"]:
        if ca[txt] > cb[txt]:
            return n, txt, "first"
    for (txt, n) in sigs["B"]:
        if cb[txt] > ca[txt]:
            return n, txt, "second"
    return None


def r01d(ctx):
    m = ctx.model
    ctx.rule("R01d", "FixedKeyDictNode._child_edits: every own pair yields exactly one edit (match/pair-edit if the key is "
                     "in the other mapping, deferred Remove otherwise, all deferred removals drained), every foreign "
                     "pair whose key is absent yields exactly one Insert; lookups pair only equal keys")
    q = m.need_class("FixedKeyDictNode")
    f = m.method(q, "_child_edits")
    other = func_params(f.node)[1]
    from ..astx import desugar_yield_from
    fnode = desugar_yield_from(f.node)          # `yield from (X for v in it if c)` reads as the loop it abbreviates
    loops = [n for n in fnode.body if isinstance(n, ast.For)]
    n = 0
    if len(loops) < 2:
        raise Inconclusive("_child_edits: expected loops over own pairs and over the other mapping")
    own = loops[0]
    # own loop: if key in other: (yield ...) else: defer
    n += 1
    # path enumeration over the loop body (if/else nesting and guard clauses ending in `continue` alike): on every path on
    # which the key is in the other mapping exactly one edit is yielded; on every path on which it is not, the pair is
    # deferred exactly once (and nothing is yielded) or one edit is yielded directly
    def paths(stmts, facts, y, d):
        if not stmts:
            return [(facts, y, d, False)]
        s_, rest = stmts[0], stmts[1:]
        if isinstance(s_, ast.If):
            out = []
            for pol, branch in ((True, s_.body), (False, s_.orelse)):
                for fc, yy, dd, ended in paths(branch, facts + [(s_.test, pol)], y, d):
                    out += [(fc, yy, dd, True)] if ended else paths(rest, fc, yy, dd)
            return out
        if isinstance(s_, ast.Continue):
            return [(facts, y, d, True)]
        yk = sum(1 for x in ast.walk(s_) if isinstance(x, (ast.Yield, ast.YieldFrom)))
        dk = [c for c in ast.walk(s_) if isinstance(c, ast.Call) and isinstance(c.func, ast.Attribute) and c.func.attr in ("append", "add")]
        return paths(rest, facts, y + yk, d + dk)

    def membership(facts):
        for t, pol in facts:
            if isinstance(t, ast.Compare) and len(t.ops) == 1 and dotted(t.comparators[0]) == other:
                if isinstance(t.ops[0], ast.In):
                    return pol
                if isinstance(t.ops[0], ast.NotIn):
                    return not pol
        return None
    all_paths = paths(own.body, [], 0, [])
    ok = bool(all_paths)
    deferred = None
    summary = []
    for fc, yy, dd, _ in all_paths:
        mem = membership(fc)
        summary.append(f"{'in' if mem else ('not in' if mem is False else '?')}: {yy} yield(s), {len(dd)} deferral(s)")
        if mem is True:
            ok = ok and yy == 1 and not dd
        elif mem is False:
            ok = ok and ((yy == 0 and len(dd) == 1) or (yy == 1 and not dd))
            if dd:
                deferred = dotted(dd[0].func.value)
        else:
            ok = False
    detail = "paths by membership of the key in the other mapping - " + "; ".join(sorted(set(summary)))
    if True:
        pass
    if ok:
        ctx.proved("R01d", f.file, "FixedKeyDictNode._child_edits", own, "own pairs", detail)
    else:
        ctx.violation("R01d", f.file, "FixedKeyDictNode._child_edits", own, "own pairs",
                      f"an own key/value pair does not produce exactly one edit on every path ({detail})")
    # lookup pairs equal keys: other_kvp = node[key] with the loop's key
    n += 1
    keyvar = own.target.elts[0].id if isinstance(own.target, ast.Tuple) else None
    look = [s for s in ast.walk(own) if isinstance(s, ast.Subscript) and isinstance(s.ctx, ast.Load) and dotted(s.value) == other]
    if look and keyvar and all(dotted(l_.slice) == keyvar for l_ in look):
        ctx.proved("R01d", f.file, "FixedKeyDictNode._child_edits", look[0], "same-key lookup",
                   f"the partner is {other}[{keyvar}] - the pair with the same key")
    else:
        ctx.violation("R01d", f.file, "FixedKeyDictNode._child_edits", look[0] if look else own, "same-key lookup",
                      "the partner pair is not looked up by the same key")
    # drain loop
    n += 1
    drains = [l for l in loops[1:] if ok and deferred and dotted(l.iter) == deferred]
    if ok and deferred:
        if drains and _yields_per_path(drains[0].body) == {1} and any(
                isinstance(c, ast.Call) and call_name(c) == "Remove" for c in ast.walk(drains[0])):
            ctx.proved("R01d", f.file, "FixedKeyDictNode._child_edits", drains[0], "deferred removals drained",
                       f"every pair deferred in `{deferred}` is yielded once as Remove")
        else:
            ctx.violation("R01d", f.file, "FixedKeyDictNode._child_edits", f.node, "deferred removals drained",
                          f"pairs deferred in `{deferred}` are not all emitted as Remove exactly once")
    # foreign loop: for kvp in other: if kvp.key not in self._children: yield Insert
    n += 1
    fl = [l for l in loops[1:] if dotted(l.iter) == other]
    good = False
    if fl:
        # exactly one `yield Insert(...)` in the loop, and the only thing that decides it is "this pair's key is not one of
        # ours" - written as an `if ... not in`, or as a guard clause `if ... in ...: continue`
        ys = [y for y in ast.walk(fl[0]) if isinstance(y, ast.Yield)]
        ins = [y for y in ys if isinstance(y.value, ast.Call) and call_name(y.value) == "Insert"]
        if len(ys) == 1 and len(ins) == 1 and isinstance(fl[0].target, ast.Name):
            v = fl[0].target.id
            signed = set()
            for t, pol in flatten_conditions(dominating_conditions(ins[0], stop=fl[0])):
                if isinstance(t, ast.Compare) and len(t.ops) == 1 and isinstance(t.ops[0], (ast.In, ast.NotIn)):
                    signed.add((ast.unparse(t.left).replace(" ", ""), ast.unparse(t.comparators[0]).replace(" ", ""),
                                isinstance(t.ops[0], ast.In) == pol))
                else:
                    signed.add((ast.unparse(t), None, pol))
            good = signed == {(f"{v}.key", "self._children", False)} and dotted(kwarg(ins[0].value, "to_insert", 0)) == v
    if good:
        ctx.proved("R01d", f.file, "FixedKeyDictNode._child_edits", fl[0], "foreign pairs",
                   "pairs of the other mapping are inserted exactly when their key is absent here (complement of the own-pair test)")
    else:
        ctx.violation("R01d", f.file, "FixedKeyDictNode._child_edits", fl[0] if fl else f.node, "foreign pairs",
                      "pairs of the other mapping are not inserted exactly once when (and only when) their key is absent")
    n += 1
    exits = [x for x in walk_no_nested(fnode) if isinstance(x, (ast.Return, ast.Break))]
    if exits:
        ctx.violation("R01d", f.file, "FixedKeyDictNode._child_edits", exits[0], "visits every pair",
                      f"`{norm(exits[0], 40)}` (line {exits[0].lineno}) lets the generator stop before every own and every "
                      f"foreign pair has been visited: pairs after that point get no edit (e.g. inserted keys are lost when "
                      f"keys are also removed)")
    else:
        ctx.proved("R01d", f.file, "FixedKeyDictNode._child_edits", f.node, "visits every pair",
                   "no return/break: both loops run over all pairs")
    # the partition analysed above is the one in use: every keyed edit FixedKeyDictNode builds is fed by _child_edits()
    n += 1
    ed = m.method(q, "edits")
    builds = []
    if ed is not None:
        from ..astx import class_helpers
        for g_ in class_helpers(m, q, ed, depth=1):
            if g_.node is f.node:
                continue
            for c in walk_no_nested(g_.node):
                if isinstance(c, ast.Call) and call_name(c) and m.find_class(call_name(c).split(".")[-1]) is not None \
                        and m.is_subclass(m.find_class(call_name(c).split(".")[-1]), m.need_class("SequenceEdit")) and kwarg(c, "edits", 2) is not None:
                    builds.append((g_, c))
    for g_, c in builds:
        src = kwarg(c, "edits", 2)
        if isinstance(src, ast.Name):
            vals = [a.value for a in walk_no_nested(g_.node) if isinstance(a, ast.Assign) and len(a.targets) == 1
                    and isinstance(a.targets[0], ast.Name) and a.targets[0].id == src.id]
            src = vals[0] if len(vals) == 1 else src
        if isinstance(src, ast.Call) and self_attr(src.func) == "_child_edits":
            ctx.proved("R01d", g_.file, g_.short, c, f"{g_.short} keyed edit fed by the partition",
                       f"`{norm(c, 70)}` takes its sub-edits from _child_edits()")
            continue
        region = [src]
        if isinstance(src, ast.Call) and self_attr(src.func) and m.method(q, self_attr(src.func)) is not None:
            region.append(m.method(q, self_attr(src.func)).node)
        positional = [x for r_ in region for x in ast.walk(r_) if isinstance(x, ast.Call) and (call_name(x) or "").split(".")[-1] in ("zip", "zip_longest", "enumerate")]
        if positional:
            ctx.violation("R01d", g_.file, g_.short, c, f"{g_.short} keyed edit fed by the partition",
                          f"`{norm(c, 70)}` takes its sub-edits from `{norm(positional[0], 50)}`, which pairs the entries of the two mappings by "
                          f"position, not by key: entries with different keys are paired (a key `Replace` under the 'none' strategy) and the "
                          f"script depends on the order the keys were written in")
        else:
            ctx.inconclusive("R01d", g_.file, g_.short, c, f"{g_.short} keyed edit fed by the partition",
                             f"`{norm(c, 70)}` takes its sub-edits from `{norm(src, 50)}`, not from the keyed partition _child_edits() analysed here")
    ctx.floor("R01d", n, 3, "keyed partition obligations")


def _yields_per_path(stmts):
    """Set of possible yield counts over the paths of a statement list (if/else only)."""
    counts = {0}
    for s in stmts:
        if isinstance(s, ast.If):
            a, b = _yields_per_path(s.body), _yields_per_path(s.orelse)
            counts = {c + x for c in counts for x in (a | b)}
        else:
            k = sum(1 for y in ast.walk(s) if isinstance(y, (ast.Yield, ast.YieldFrom)))
            counts = {c + k for c in counts}
    return counts


# ------------------------------------------------------------------------------------------------ R01e
def r01e(ctx):
    m = ctx.model
    ctx.rule("R01e", "same-slot pairing in component-wise edits: in `A.edits(B)` / Match(A, B, 0) the access path of A from "
                     "the from-root equals the path of B from the to-root, and every component children() exposes is covered")
    n = 0
    for cname in ("KeyValuePairEdit", "XMLElementEdit", "PyObjEdit"):
        q = m.find_class(cname)
        if q is None:
            continue
        init = m.method(q, "__init__")
        p = func_params(init.node)
        frm, to = p[1], p[2]
        slots = set()
        from ..astx import subst_paths, none_facts
        init_node = subst_paths(init.node)       # `from_text = from_node.text` read as the path it names
        for c in walk_no_nested(init_node):
            pair = None
            if isinstance(c, ast.Call) and isinstance(c.func, ast.Attribute) and c.func.attr == "edits" and c.args:
                pair = (c.func.value, c.args[0])
            elif isinstance(c, ast.Call) and call_name(c) == "Match" and len(c.args) >= 2:
                pair = (c.args[0], c.args[1])
            if pair is None:
                continue
            a, b = dotted(pair[0]), dotted(pair[1])
            if not a or not b or not a.startswith(frm + "."):
                continue
            n += 1
            pa, pb = a[len(frm):], b[len(to):] if b.startswith(to + ".") else None
            if pb is not None and pa == pb:
                slots.add(pa.lstrip("."))
                ctx.proved("R01e", init.file, f"{cname}.__init__", c, f"{cname}: {a} ~ {b}", f"slot `{pa.lstrip('.')}` paired with itself")
            else:
                ctx.violation("R01e", init.file, f"{cname}.__init__", c, f"{cname}: {a} ~ {b}",
                              f"{cname} pairs `{a}` with `{b}`: different components of the two nodes are matched against "
                              f"each other, so the script does not transform the first node into the second")
        # coverage of the node class's components
        node_ann = init.node.args.args[1].annotation
        nq = m.resolve_class(init.module, ast.parse(node_ann.value, mode="eval").body if isinstance(node_ann, ast.Constant)
                             else node_ann) if node_ann is not None else None
        if nq:
            from .. import nodeshape
            shapes = nodeshape.children_shapes(m, nq)
            if shapes:
                comps = {x.replace("self.", "") for s in shapes for x in s}
                missing = comps - slots
                n += 1
                if missing:
                    ctx.violation("R01e", init.file, f"{cname}.__init__", init.node, f"{cname}: coverage",
                                  f"{nq.rsplit('.', 1)[-1]}.children() exposes {sorted(comps)} but {cname} builds no sub-edit for {sorted(missing)}")
                else:
                    ctx.proved("R01e", init.file, f"{cname}.__init__", init.node, f"{cname}: coverage",
                               f"all components {sorted(comps)} have a sub-edit")
    # text insert/remove in XMLElementEdit: Insert(to.text) when from.text is None, Remove(from.text) when to.text is None
    q = m.find_class("XMLElementEdit")
    if q:
        init = m.method(q, "__init__")
        p = func_params(init.node)
        for c in walk_no_nested(subst_paths(init.node)):
            if isinstance(c, ast.Call) and call_name(c) in ("Insert", "Remove"):
                n += 1
                arg = dotted(kwarg(c, "to_insert" if call_name(c) == "Insert" else "to_remove", 0))
                want = f"{p[2]}.text" if call_name(c) == "Insert" else f"{p[1]}.text"
                facts = sorted(none_facts(c))
                cond = (f"{p[1]}.textisNone" in facts and f"{p[2]}.textisnotNone" in facts) if call_name(c) == "Insert" \
                    else (f"{p[2]}.textisNone" in facts and f"{p[1]}.textisnotNone" in facts)
                if arg == want and cond:
                    ctx.proved("R01e", init.file, "XMLElementEdit.__init__", c, f"text {call_name(c)}", f"{call_name(c)}({want}) exactly when only that side has text")
                else:
                    ctx.violation("R01e", init.file, "XMLElementEdit.__init__", c, f"text {call_name(c)}",
                                  f"{call_name(c)}({arg}) under {facts}: expected {call_name(c)}({want}) when only that side has text")
    ctx.floor("R01e", n, 8, "same-slot pairing sites")


# ------------------------------------------------------------------------------------------------ R01f / R01g
def r01f(ctx):
    m = ctx.model
    ctx.rule("R01f", "every concrete edit class reaches an on_diff that records the edit on its node (edit/edit_list, or "
                     "`inserted` on the destination for Insert), sets removed / matched_to where promised, and compound "
                     "edits recurse over self.edits() with edit.on_diff(edit.from_node)")
    classes = [q for q in sorted(m.classes) if m.method(q, "tighten_bounds") and m.method(q, "on_diff")
               and not m.is_abstract(q) and not m.is_subclass(q, "graphtage.tree.TreeNode")
               and m.is_subclass(q, m.need_class("AbstractEdit"))]
    n = 0
    for q in classes:
        od = m.method(q, "on_diff")
        short = q.rsplit(".", 1)[-1]
        n += 1
        chain = _on_diff_chain(m, q)
        txt = " ".join(code(f.node) for f in chain).replace(" ", "")
        compound = m.method(q, "edits") is not None
        problems = []
        if short == "Insert":
            if ".inserted.append(" not in txt:
                problems.append("Insert.on_diff does not append the inserted node to the destination's `inserted` list")
        else:
            if ".edit_list.append(self)" not in txt or ".edit=self" not in txt:
                problems.append("the edit is not recorded in from_node.edit / from_node.edit_list")
        if short == "Remove" and ".removed=True" not in txt:
            problems.append("Remove.on_diff does not mark the node removed")
        if short == "Match" and ".matched_to=self.to_node" not in txt:
            problems.append("Match.on_diff does not record matched_to")
        loops_ = [l_ for f_ in chain for l_ in walk_no_nested(f_.node) if isinstance(l_, ast.For) and isinstance(l_.target, ast.Name)
                  and isinstance(l_.iter, ast.Call) and self_attr(l_.iter.func) == "edits" and not l_.iter.args]
        if compound and not loops_:
            problems.append("compound on_diff does not iterate self.edits()")
        if compound and not any(isinstance(c_, ast.Call) and isinstance(c_.func, ast.Attribute) and c_.func.attr == "on_diff"
                                and dotted(c_.func.value) == l_.target.id and len(c_.args) == 1 and dotted(c_.args[0]) == f"{l_.target.id}.from_node"
                                for l_ in loops_ for s_ in l_.body for c_ in ast.walk(s_)):
            problems.append("compound on_diff does not push each sub-edit onto its own from_node")
        if problems:
            ctx.violation("R01f", od.file, f"{short}.on_diff", od.node, f"{short}.on_diff",
                          f"{short}: " + "; ".join(problems) + f" (resolution chain {[f.short for f in chain]})")
        else:
            ctx.proved("R01f", od.file, f"{short}.on_diff", od.node, f"{short}.on_diff",
                       f"resolved through {[f.short for f in chain]}")
    ctx.floor("R01f", n, 12, "concrete edit classes")


def _on_diff_chain(m, q):
    """on_diff implementations executed for class q: the MRO-resolved one plus those reached through super()."""
    out = []
    mro = m.c3(q)
    i = 0
    while i < len(mro):
        k = mro[i]
        if "on_diff" in m.attrs[k] and m.attrs[k]["on_diff"][0] == "def":
            f = m.attrs[k]["on_diff"][1]
            out.append(f)
            if "super().on_diff" not in code(f.node):
                break
        i += 1
    return out


def r01g(ctx):
    m = ctx.model
    ctx.rule("R01g", "TreeNode.diff: the edit obtained from ret.edits(node) on the edited copy is the one refined in the "
                     "loop and the one whose on_diff(ret) runs on every path before ret is returned")
    tn = m.need_class("TreeNode")
    d = m.method(tn, "diff")
    other = func_params(d.node)[1]
    _r0, rb = pat.first("R = self.make_edited()", d.node)
    ok = False
    if rb:
        R_ = rb["R"]
        _e0, eb = pat.first(f"E = {R_}.edits({other})", d.node)
        if eb:
            E_ = eb["E"]
            ok = bool(pat.find_expr(f"{E_}.tighten_bounds()", d.node)) and bool(pat.find_expr(f"{E_}.on_diff({R_})", d.node)) \
                and isinstance(d.node.body[-1], ast.Return) and dotted(d.node.body[-1].value) == R_
    # on_diff must not be conditional
    od = [c for c in walk_no_nested(d.node) if isinstance(c, ast.Call) and isinstance(c.func, ast.Attribute) and c.func.attr == "on_diff"]
    uncond = od and not [a for a in ancestors(od[0]) if isinstance(a, (ast.If, ast.While, ast.For, ast.ExceptHandler, ast.IfExp))]
    if ok and uncond:
        ctx.proved("R01g", d.file, "TreeNode.diff", d.node, "diff pushes the script",
                   "edited copy -> edits(node) -> refine loop -> edit.on_diff(ret) unconditionally -> return ret")
    else:
        ctx.violation("R01g", d.file, "TreeNode.diff", od[0] if od else d.node, "diff pushes the script",
                      "TreeNode.diff does not (build the edit on the edited copy, refine that same edit and push it with "
                      "on_diff(ret) on every path before returning the copy)")
    # PLISTNode.edits: wrapper shell + root against root
    pq = m.find_class("PLISTNode")
    if pq:
        e = m.method(pq, "edits")
        t = code(e.node).replace(" ", "")
        o = func_params(e.node)[1]
        if f"self.root.edits({o}.root)" in t:
            ctx.proved("R01g", e.file, "PLISTNode.edits", e.node, "plist root pairing", "root is diffed against the other wrapper's root")
        else:
            ctx.violation("R01g", e.file, "PLISTNode.edits", e.node, "plist root pairing",
                          "PLISTNode.edits does not diff self.root against the other wrapper's root")


def r01h(ctx):
    m = ctx.model
    ctx.rule("R01h", "presence of a node is never tested by truthiness in edit constructors: container nodes define "
                     "__len__/__bool__, so an empty list, mapping or CSV row is falsy and would be treated as absent")
    n = 0
    edit_classes = [q for q in m.classes if m.method(q, "tighten_bounds") and m.method(q, "on_diff")
                    and not m.is_subclass(q, "graphtage.tree.TreeNode")]
    for q in sorted(edit_classes):
        for name in ("__init__", "edits"):
            if name not in m.attrs[q] or m.attrs[q][name][0] != "def":
                continue
            f = m.attrs[q][name][1]
            # names bound by iterating node sequences (zip / zip_longest / children of parameters)
            params = set(func_params(f.node)[1:])
            nodevars = set()
            for x in walk_no_nested(f.node):
                it = tg = None
                if isinstance(x, ast.For):
                    it, tg = x.iter, x.target
                elif isinstance(x, ast.comprehension):
                    it, tg = x.iter, x.target
                if it is None:
                    continue
                roots = {y.id for y in ast.walk(it) if isinstance(y, ast.Name)}
                if roots & params and (isinstance(it, ast.Name) or (isinstance(it, ast.Call) and (call_name(it) or "").split(".")[-1]
                                                                    in ("zip", "zip_longest", "children", "reversed", "enumerate"))):
                    nodevars |= {y.id for y in ast.walk(tg) if isinstance(y, ast.Name)}
            if not nodevars:
                continue
            for t in walk_no_nested(f.node):
                tests = []
                if isinstance(t, (ast.If, ast.While, ast.IfExp)):
                    tests = [t.test]
                for test in tests:
                    operands = test.values if isinstance(test, ast.BoolOp) else [test]
                    for o in operands:
                        if isinstance(o, ast.UnaryOp) and isinstance(o.op, ast.Not):
                            o = o.operand
                        if isinstance(o, ast.Name) and o.id in nodevars:
                            n += 1
                            ctx.violation("R01h", f.file, f.short, t, f"truthiness of {o.id}",
                                          f"`{norm(test, 60)}` tests node `{o.id}` by truthiness; an empty container node is "
                                          f"falsy (len 0), so an element that is present but empty is treated as missing and "
                                          f"drops out of the edit script")
    if n == 0:
        ctx.proved("R01h", "-", "-", None, "no truthiness tests on nodes", "edit constructors test node presence with `is None` only")


def run(ctx):
    r01a(ctx)
    r01h(ctx)
    r01b(ctx)
    r01c(ctx)
    r01d(ctx)
    r01e(ctx)
    from ..oneshot import e11
    e11(ctx)          # candidate scans start afresh on every round (no one-shot iterator re-walked)
    r01f(ctx)
    r01g(ctx)
    # defects recorded for other properties that also break this one (hunting wave 3): each is a part of a document that
    # no edit accounts for, or a pair of unequal parts reported as kept
    from . import c02, c03, c13
    c02.r02h(ctx)     # parts of a parsed XML element that never reach the tree are accounted for by nothing
    c02.r02b(ctx)     # unequal leaves at cost 0 are reported as kept
    c02.r02l(ctx)     # an empty set and an empty mapping are "the same" element
    c03.r03h(ctx)     # repeated members collapse into one entry of the matcher: copies are lost or the diff never ends
    c13.h13(ctx)      # byte strings have no edit script at all
    ctx.assume("which equal-looking elements are the *right* ones to pair (values) and the behaviour of the third-party "
               "assignment solver are not decided; any monotone path of coherent steps is a valid list partition")
