"""C14 - the command line agrees with the library and honours its option spellings.

R14a role separation (E6): values that select or report the second file derive only from to-role options, and
symmetrically; R14b alias equivalence (E7, finite evaluation of the option logic); R14c explicit MIME type beats the
path; R14d the CLI pipeline is the library pipeline (no CLI-only transformation of trees, formatter selection).
"""
import ast

from .. import cli
from ..astx import dotted, call_name, walk_no_nested, parent, ancestors, dominating_conditions, flatten_conditions, \
    str_const, kwarg, func_params, resolve_local
from ..core import norm, Inconclusive


def role_of_name(s):
    s = s.lower()
    if s.startswith("from_") or s.startswith("from-") or s == "from_path":
        return "from"
    if s.startswith("to_") or s.startswith("to-") or s == "to_path":
        return "to"
    return None


def roles_of(e, roles):
    out = set()
    for n in ast.walk(e):
        if isinstance(n, ast.Attribute) and isinstance(n.value, ast.Name) and n.value.id == cli.ARGS:
            r = role_of_name(n.attr)
            if r:
                out.add(r)
        elif isinstance(n, ast.Name) and isinstance(n.ctx, ast.Load) and n.id in roles:
            out |= roles[n.id]
        elif isinstance(n, ast.Call) and call_name(n) == "getattr" and len(n.args) >= 2:
            t, _ = cli.flag_text(n.args[1])
            r = role_of_name(t or "")
            if r:
                out.add(r)
        elif isinstance(n, ast.Call) and call_name(n) not in ("getattr",):
            # a helper or closure parametrised by the side: `requested_mime(args, 'from')`, `explicit_mime('to')`
            for a in n.args:
                if isinstance(a, ast.Constant) and a.value in ("from", "to"):
                    out.add(a.value)
    return out


def r14a(ctx, f):
    """Role separation.  Violations cascade (a mixed-role variable taints every later sink), so they are grouped: the
    first offending *definition* is reported as the root cause and the dependent sinks are listed under it."""
    real_violation = ctx.violation
    collected = []

    def collect(rule, file, func, node, construct, detail, path=None):
        collected.append((getattr(node, "lineno", 0), rule, file, func, node, construct, detail))
    ctx.violation = collect
    try:
        _r14a(ctx, f)
    finally:
        ctx.violation = real_violation
    if collected:
        collected.sort(key=lambda x: x[0])
        # root cause: the earliest assignment in main whose value mixes roles relative to its own name
        root = _mixed_definition(f)
        if root is not None:
            node, name, rs, src = root
            ctx.violation("R14a", f.file, "main", node, f"definition of {name}",
                          f"`{name}` (a {role_of_name(name) or '?'}-role value) is computed from {sorted(rs)}-role inputs at line "
                          f"{node.lineno}: `{norm(node, 70)}`. A value meant for one file is derived from the other file's options "
                          f"(e.g. --from-mime deciding how the second file is parsed)",
                          path=[f"dependent sink line {ln}: {detail[:110]}" for ln, *_r, detail in collected])
        else:
            ln, rule, file, func, node, construct, detail = collected[0]
            ctx.violation(rule, file, func, node, construct, detail,
                          path=[f"also line {l}: {d[:110]}" for l, *_r, d in collected[1:]])


def _mixed_definition(f):
    """First assignment `x = ...` in main where x's own name carries one role and the value (or its controlling
    tests) carries the other."""
    fn = f.node
    best = None
    for n in walk_no_nested(fn):
        if isinstance(n, ast.Assign) and isinstance(n.targets[0], ast.Name):
            own = role_of_name(n.targets[0].id)
            if not own:
                continue
            byname = {x.id: {role_of_name(x.id)} for x in ast.walk(fn) if isinstance(x, ast.Name) and role_of_name(x.id)}
            rs = roles_of(n.value, byname)
            for a in ancestors(n):
                if a is fn:
                    break
                if isinstance(a, (ast.If, ast.While)):
                    rs |= roles_of(a.test, byname)
            other = rs - {own}
            if other and (best is None or n.lineno < best[0].lineno):
                best = (n, n.targets[0].id, other, rs)
    return best


def _r14a(ctx, f):
    ctx.rule("R14a", "role separation in main: at get_filetype / build_tree_handling_errors / diff sinks and in the "
                     "error branches, the values used for the second file depend only on to-role options "
                     "(args.to_*, TO_PATH) and those for the first only on from-role options")
    fn = f.node
    roles = {}
    for _ in range(6):
        before = {k: set(v) for k, v in roles.items()}
        for n in walk_no_nested(fn):
            tg, val = None, None
            if isinstance(n, (ast.Assign, ast.AnnAssign)) and n.value is not None:
                tg = n.targets if isinstance(n, ast.Assign) else [n.target]
                val = n.value
            elif isinstance(n, ast.With):
                for it in n.items:
                    if it.optional_vars is not None:
                        r = roles_of(it.context_expr, roles)
                        for x in ast.walk(it.optional_vars):
                            if isinstance(x, ast.Name):
                                roles.setdefault(x.id, set()).update(r)
                continue
            elif isinstance(n, ast.For):
                r = roles_of(n.iter, roles)
                for x in ast.walk(n.target):
                    if isinstance(x, ast.Name):
                        roles.setdefault(x.id, set()).update(r)
                continue
            if tg is None:
                continue
            r = roles_of(val, roles)
            # control dependence on enclosing tests
            for a in ancestors(n):
                if a is fn:
                    break
                if isinstance(a, (ast.If, ast.While)):
                    r |= roles_of(a.test, roles)
            for t in tg:
                for x in ast.walk(t):
                    if isinstance(x, ast.Name) and isinstance(x.ctx, ast.Store):
                        roles.setdefault(x.id, set()).update(r)
        if before == roles:
            break
    seen_roles = set()
    n_sinks = 0

    def single(node, what, rs, construct):
        nonlocal n_sinks
        n_sinks += 1
        if len(rs) == 1:
            seen_roles.add((what.split(":")[0], next(iter(rs))))
            ctx.proved("R14a", f.file, "main", node, construct, f"{what}: all inputs carry the single role {sorted(rs)}")
            return True
        if not rs:
            ctx.inconclusive("R14a", f.file, "main", node, construct, f"{what}: no role could be derived")
            return False
        ctx.violation("R14a", f.file, "main", node, construct,
                      f"{what}: the arguments mix roles {sorted(rs)} - a value meant for one file is derived from the "
                      f"other file's options (e.g. --from-mime deciding how the second file is parsed)")
        return False
    for n in walk_no_nested(fn):
        if not isinstance(n, ast.Call):
            continue
        nm = call_name(n) or ""
        if nm.endswith("get_filetype") and n.args:
            rs = set()
            for a in n.args + [k.value for k in n.keywords]:
                rs |= roles_of(a, roles)
            key = "path" if not roles_of(n.args[0], roles) else sorted(roles_of(n.args[0], roles))[0]
            single(n, "get_filetype", rs, f"get_filetype[{key}]")
        elif isinstance(n.func, ast.Attribute) and n.func.attr == "build_tree_handling_errors":
            rs = roles_of(n.func.value, roles)
            pr = set()
            for a in n.args[:1]:
                pr |= roles_of(a, roles)
            single(n, "build_tree_handling_errors", rs | pr, f"build_tree_handling_errors[{'/'.join(sorted(pr)) or '?'}]")
        elif isinstance(n.func, ast.Attribute) and n.func.attr in ("diff", "get_all_edits", "get_all_edit_contexts") \
                and n.args:
            n_sinks += 1
            ra, rb = roles_of(n.func.value, roles), roles_of(n.args[0], roles)
            if ra == {"from"} and rb == {"to"}:
                ctx.proved("R14a", f.file, "main", n, f".{n.func.attr}()", "receiver is the first file's tree, argument the second's")
            else:
                ctx.violation("R14a", f.file, "main", n, f".{n.func.attr}()",
                              f"{n.func.attr}: receiver roles {sorted(ra)} / argument roles {sorted(rb)}; expected "
                              f"from-tree.{n.func.attr}(to-tree)")
    # error branches: the message written is the tested value
    for n in walk_no_nested(fn):
        if isinstance(n, ast.If) and isinstance(n.test, ast.Call) and call_name(n.test) == "isinstance" \
                and len(n.test.args) == 2 and isinstance(n.test.args[1], ast.Name) and n.test.args[1].id == "str":
            tr = roles_of(n.test.args[0], roles)
            for c in [x for s in n.body for x in ast.walk(s) if isinstance(x, ast.Call)
                      and (call_name(x) or "").endswith("stderr.write")]:
                ar = set()
                for a in c.args:
                    ar |= roles_of(a, roles)
                if ar and ar != tr:
                    ctx.violation("R14a", f.file, "main", c, f"error branch[{'/'.join(sorted(tr))}]",
                                  f"the error branch for the {sorted(tr)} file reports a value of role {sorted(ar)}")
                elif ar:
                    n_sinks += 1
                    ctx.proved("R14a", f.file, "main", c, f"error branch[{'/'.join(sorted(tr))}]",
                               "the message written is the one returned for the tested file")
    for what in ("get_filetype", "build_tree_handling_errors"):
        for r in ("from", "to"):
            if (what, r) not in seen_roles:
                ctx.violation("R14a", f.file, "main", fn, f"{what}[{r}] missing",
                              f"no {what} call is made purely with {r}-role inputs: the {r} file's type is not "
                              f"selected by its own options")
    ctx.floor("R14a", n_sinks, 5, "role sinks in main")


def is_none_const(e):
    return isinstance(e, ast.Constant) and e.value is None


def r14b(ctx, f, specs, groups):
    ctx.rule("R14b", "alias equivalence by finite evaluation of main's option logic: -k == --dict-strategy none; "
                     "default == --dict-strategy auto; -j == -jl -jd; --from-TYPE/--to-TYPE store that type's default "
                     "MIME string under the attribute the lookup loop reads")
    fn = f.node
    n = 0

    def need(dest):
        if dest not in specs:
            raise Inconclusive(f"option with dest {dest} not found in main's argparse spec")
        return specs[dest]
    # -- dict strategy
    ds, nk = need("dict_strategy"), need("no_key_edits")
    call = cli.build_options_call(fn)
    a = cli.eval_build_options(fn, specs, {"no_key_edits": True})
    b = cli.eval_build_options(fn, specs, {"dict_strategy": "none"})
    d0 = cli.eval_build_options(fn, specs, {})
    da = cli.eval_build_options(fn, specs, {"dict_strategy": "auto"})
    dm = cli.eval_build_options(fn, specs, {"dict_strategy": "match"})
    n += 1
    if "-k" not in nk.flags:
        ctx.violation("R14b", f.file, "main", nk.node, "-k flag", "the -k spelling is not attached to --no-key-edits")
    if a == b:
        ctx.proved("R14b", f.file, "main", call, "-k == --dict-strategy none",
                   f"both evaluate to BuildOptions{sorted(a.items())}")
    else:
        diff = {k: (a[k], b[k]) for k in a if a[k] != b.get(k)}
        ctx.violation("R14b", f.file, "main", call, "-k == --dict-strategy none",
                      f"`-k` and `--dict-strategy none` build different options: {diff} "
                      f"(-k -> {sorted(a.items())}; none -> {sorted(b.items())})")
    n += 1
    if d0 == da:
        ctx.proved("R14b", f.file, "main", call, "default == --dict-strategy auto",
                   "no dictionary option evaluates to the same BuildOptions as `auto`")
    else:
        ctx.violation("R14b", f.file, "main", call, "default == --dict-strategy auto",
                      f"the documented default strategy `auto` differs from passing nothing: "
                      f"{ {k: (d0[k], da[k]) for k in d0 if d0[k] != da.get(k)} }")
    n += 1
    distinct = len({tuple(sorted(x.items())) for x in (b, da, dm)})
    if distinct == 3:
        ctx.proved("R14b", f.file, "main", call, "strategies distinct",
                   "auto / match / none select three different option pairs")
    else:
        ctx.violation("R14b", f.file, "main", call, "strategies distinct",
                      f"two dictionary strategies evaluate to the same options: none={b} auto={da} match={dm}")
    # documented meaning of the three strategies (README / --help text): (allow_key_edits, auto_match_keys)
    expected = {"none": (False, False), "auto": (True, True), "match": (True, False)}
    for name, got in (("none", b), ("auto", da), ("match", dm)):
        n += 1
        g = (got.get("allow_key_edits"), got.get("auto_match_keys"))
        if g == expected[name]:
            ctx.proved("R14b", f.file, "main", call, f"--dict-strategy {name}",
                       f"allow_key_edits, auto_match_keys = {g} as documented")
        else:
            ctx.violation("R14b", f.file, "main", call, f"--dict-strategy {name}",
                          f"`--dict-strategy {name}` yields (allow_key_edits, auto_match_keys) = {g}, documented "
                          f"{expected[name]}")
    # -- condensed
    printer_call = None
    for x in walk_no_nested(fn):
        if isinstance(x, ast.Call):
            for k in x.keywords:
                if k.arg == "options" and isinstance(k.value, ast.Dict):
                    printer_call = (x, k.value)
    if printer_call is None:
        ctx.inconclusive("R14b", f.file, "main", fn, "printer options", "cannot find the printer's options={...} dict")
    else:
        pc, optd = printer_call
        need("condensed"), need("join_lists"), need("join_dict_items")

        def evd(over):
            env = cli.default_env(specs)
            env.update({f"{cli.ARGS}.{k}": v for k, v in over.items()})
            try:
                return cli.ev(optd, env)
            except cli.Unknown as u:
                raise Inconclusive(f"printer options are not a pure flag expression ({u})")
        j = evd({"condensed": True})
        jj = evd({"join_lists": True, "join_dict_items": True})
        n += 1
        if j == jj and all(bool(v) for v in j.values()):
            ctx.proved("R14b", f.file, "main", pc, "-j == -jl -jd", f"both evaluate to {j}")
        else:
            ctx.violation("R14b", f.file, "main", pc, "-j == -jl -jd",
                          f"`-j` gives {j} but `-jl -jd` gives {jj}")
        for one, key in (("join_lists", "join_lists"), ("join_dict_items", "join_dict_items")):
            n += 1
            r = evd({one: True})
            others = {k: v for k, v in r.items() if k != key}
            if r.get(key) and not any(others.values()):
                ctx.proved("R14b", f.file, "main", pc, f"--{one.replace('_', '-')} alone", f"sets only {key}")
            else:
                ctx.violation("R14b", f.file, "main", pc, f"--{one.replace('_', '-')} alone",
                              f"`--{one.replace('_', '-')}` alone evaluates to {r}")
        flags_ok = "-j" in specs["condensed"].flags and "-jl" in specs["join_lists"].flags and "-jd" in specs["join_dict_items"].flags
        n += 1
        if flags_ok:
            ctx.proved("R14b", f.file, "main", pc, "short spellings", "-j/-jl/-jd are attached to condensed/join-lists/join-dict-items")
        else:
            ctx.violation("R14b", f.file, "main", pc, "short spellings", "a short spelling -j/-jl/-jd is attached to the wrong option")
    # -- --from-TYPE / --to-TYPE
    for side in ("from", "to"):
        n += 1
        tmpl = [s for s in specs.values() if s.template and s.flags and s.flags[0] == f"--{side}-{{}}"]
        mime = specs.get(f"{side}_mime")
        if not tmpl or mime is None:
            ctx.violation("R14b", f.file, "main", fn, f"--{side}-TYPE", f"no --{side}-TYPE / --{side}-mime options found")
            continue
        s = tmpl[0]
        problems = []
        if s.action != "store_const":
            problems.append(f"action is {s.action}, not store_const")
        # const must be the loop's filetype.default_mimetype
        loop = next((a for a in ancestors(s.node) if isinstance(a, ast.For)), None)
        const_ok = False
        if loop is not None and s.const is not None:
            names = {x.id for x in ast.walk(loop.target) if isinstance(x, ast.Name)}
            cexpr = s.const
            if isinstance(cexpr, ast.Name):
                for st in loop.body:
                    if isinstance(st, ast.Assign) and any(isinstance(t, ast.Name) and t.id == cexpr.id for t in st.targets):
                        cexpr = st.value
            d = dotted(cexpr) or ""
            const_ok = d.endswith(".default_mimetype") and d.split(".")[0] in names \
                and "FILETYPES_BY_TYPENAME" in ast.unparse(loop.iter)
        if not const_ok:
            problems.append("the stored constant is not the loop file type's default_mimetype")
        if s.default not in (None,):
            problems.append(f"default is {s.default!r}, not None")
        if s.group != mime.group:
            problems.append(f"--{side}-TYPE and --{side}-mime are not in the same exclusive group")
        # lookup: getattr(args, f'<side>_{typename}') in a loop over FILETYPES_BY_TYPENAME keys, first non-None wins,
        # after an explicit args.<side>_mime test
        look = None
        for x in walk_no_nested(fn):
            if isinstance(x, ast.Call) and call_name(x) == "getattr" and len(x.args) >= 2:
                t, _ = cli.flag_text(x.args[1])
                if t == f"{side}_{{}}":
                    look = x
        helper_ok = False
        if look is None:
            # the lookup may live in a helper parametrised by the side: <var> = helper(args, '<side>')
            for a in walk_no_nested(fn):
                if isinstance(a, ast.Assign) and isinstance(a.value, ast.Call) and any(isinstance(x, ast.Constant) and x.value == side for x in a.value.args):
                    r_ = ctx.model.resolve_expr(f.module, a.value.func)
                    h = ctx.model.functions.get(r_[0][1]) if r_ and r_[0] and r_[0][0] == "func" else None
                    if h is None and isinstance(a.value.func, ast.Name):
                        # a closure of main
                        inner = [d_ for d_ in ast.walk(fn) if isinstance(d_, ast.FunctionDef) and d_ is not fn and d_.name == a.value.func.id]
                        if len(inner) == 1:
                            import types as _types
                            h = _types.SimpleNamespace(node=inner[0], short=f"main.{inner[0].name}")
                    if h is None:
                        continue
                    hp = func_params(h.node)
                    idx = next(i_ for i_, x in enumerate(a.value.args) if isinstance(x, ast.Constant) and x.value == side)
                    sp = hp[idx] if idx < len(hp) else None
                    for x in walk_no_nested(h.node):
                        if isinstance(x, ast.Call) and call_name(x) == "getattr" and len(x.args) >= 2 and isinstance(x.args[1], ast.JoinedStr):
                            parts = x.args[1].values
                            if len(parts) == 3 and isinstance(parts[0], ast.FormattedValue) and dotted(parts[0].value) == sp \
                                    and isinstance(parts[1], ast.Constant) and parts[1].value == "_" and isinstance(parts[2], ast.FormattedValue):
                                lp = next((z for z in ancestors(x) if isinstance(z, ast.For)), None)
                                gen = next((z for z in ancestors(x) if isinstance(z, ast.GeneratorExp)), None)
                                if lp is None and gen is not None and x is gen.elt and len(gen.generators) == 1 and not gen.generators[0].ifs:
                                    # lazily: `flags = (getattr(args, f'{side}_{name}') for name in REGISTRY)`, then
                                    # `next((v for v in flags if v is not None), None)` - the first option that is set
                                    reg_ok = "FILETYPES_BY_TYPENAME" in ast.unparse(gen.generators[0].iter)
                                    first = False
                                    for nx in walk_no_nested(h.node):
                                        if isinstance(nx, ast.Call) and call_name(nx) == "next" and nx.args and isinstance(nx.args[0], ast.GeneratorExp):
                                            g2 = nx.args[0]
                                            src = resolve_local(h.node, g2.generators[0].iter)
                                            v2 = g2.generators[0].target.id if isinstance(g2.generators[0].target, ast.Name) else None
                                            if src is gen and len(g2.generators) == 1 and dotted(g2.elt) == v2 and len(g2.generators[0].ifs) == 1 \
                                                    and ast.unparse(g2.generators[0].ifs[0]).replace(" ", "") == f"{v2}isnotNone" \
                                                    and len(nx.args) == 2 and is_none_const(nx.args[1]):
                                                first = True
                                    if reg_ok and first:
                                        helper_ok = True
                                    else:
                                        problems.append(f"the lookup in {h.short} does not stop at the first option that is set (or does not iterate FILETYPES_BY_TYPENAME)")
                                        helper_ok = None
                                    continue
                                asg = parent(x)
                                var = asg.targets[0].id if isinstance(asg, ast.Assign) and isinstance(asg.targets[0], ast.Name) else None
                                first_wins = lp is not None and any(
                                    isinstance(b, ast.If) and var and ast.unparse(b.test).replace(" ", "") == f"{var}isnotNone"
                                    and any(isinstance(z, (ast.Break, ast.Return)) for z in b.body) for b in lp.body)
                                if lp is not None and "FILETYPES_BY_TYPENAME" in ast.unparse(lp.iter) and first_wins:
                                    helper_ok = True
                                elif lp is not None:
                                    problems.append(f"the lookup in {h.short} does not stop at the first option that is set (or does not iterate FILETYPES_BY_TYPENAME)")
                                    helper_ok = None
        if look is None and helper_ok:
            pass
        elif look is None and helper_ok is None:
            pass
        elif look is None:
            problems.append(f"no getattr(args, f'{side}_{{typename}}') lookup")
        else:
            lp = next((a for a in ancestors(look) if isinstance(a, ast.For)), None)
            if lp is None or "FILETYPES_BY_TYPENAME" not in ast.unparse(lp.iter):
                problems.append("the lookup does not iterate FILETYPES_BY_TYPENAME")
            else:
                asg = parent(look)
                var = asg.targets[0].id if isinstance(asg, ast.Assign) and isinstance(asg.targets[0], ast.Name) else None
                brk = [b for b in lp.body if isinstance(b, ast.If) and any(isinstance(z, ast.Break) for z in b.body)]
                ok_break = any(var and ast.unparse(b.test).replace(" ", "") == f"{var}isnotNone" for b in brk)
                other_side = "to" if side == "from" else "from"
                mixed = [b for b in brk if any(isinstance(x, ast.Name) and role_of_name(x.id) == other_side for x in ast.walk(b.test))]
                if mixed:
                    problems.append(f"the lookup loop stops on a condition that also involves the {other_side} file's type "
                                    f"(`{norm(mixed[0].test, 60)}`): once one side is resolved the other side's --{side}-TYPE flag "
                                    f"is never read")
                elif not ok_break:
                    problems.append("the lookup loop does not stop at the first option that is set")
        if problems:
            ctx.violation("R14b", f.file, "main", s.node, f"--{side}-TYPE == --{side}-mime",
                          f"--{side}-TYPE is not equivalent to --{side}-mime <that type's MIME string>: " + "; ".join(problems))
        else:
            ctx.proved("R14b", f.file, "main", s.node, f"--{side}-TYPE == --{side}-mime",
                       f"store_const of filetype.default_mimetype, default None, same exclusive group as --{side}-mime; "
                       f"looked up by getattr(args, '{side}_<typename>') over the same registry, first set wins")
    ctx.floor("R14b", n, 10, "alias/meaning obligations evaluated")


def r14g(ctx):
    m = ctx.model
    ctx.rule("R14g", "the command loads files the way the library does: main only ever calls build_tree_handling_errors, library "
                     "users call Filetype.build_tree; so every concrete build_tree_handling_errors must take its tree from "
                     "`self.build_tree(path, options)` - the same method, with the caller's path and options - and return it "
                     "unchanged.  A handler that goes to another loader (the module-level function, a sibling type) silently "
                     "skips what the method adds (YAML and plist reset `quoted` on every string)")
    n = 0
    seen = set()
    for q, info in sorted(m.filetypes().items()):
        f = m.method(q, "build_tree_handling_errors")
        if f is None or f.qual in seen:
            continue
        seen.add(f.qual)
        if "abstractmethod" in " ".join(ast.unparse(d) for d in f.node.decorator_list):
            continue
        ps = func_params(f.node)
        path_p, opt_p = (ps[1], ps[2]) if len(ps) >= 3 else (None, None)
        rets = [r for r in walk_no_nested(f.node) if isinstance(r, ast.Return) and r.value is not None
                and not any(isinstance(a, ast.ExceptHandler) for a in ancestors(r))]
        n += 1
        good = []
        for r in rets:
            v = resolve_local(f.node, r.value)
            ok = isinstance(v, ast.Call) and isinstance(v.func, ast.Attribute) and dotted(v.func.value) == "self" and v.func.attr == "build_tree"
            if ok:
                a_path = kwarg(v, "path", 0)
                a_opt = kwarg(v, "options", 1)
                ok = dotted(a_path) == path_p and dotted(a_opt) == opt_p
            good.append(ok)
        if rets and all(good):
            ctx.proved("R14g", f.file, f.short, rets[0], f"{f.short} loader", "returns self.build_tree(path, options) unchanged")
        else:
            bad = rets[good.index(False)] if rets and False in good else f.node
            ctx.violation("R14g", f.file, f.short, bad, f"{f.short} loader",
                          f"`{norm(bad, 70)}`: the tree the command line gets does not come from `self.build_tree({path_p}, {opt_p})`, "
                          f"the method library users call - whatever that method does besides parsing (post-processing of the "
                          f"tree, option handling) is skipped for the command only, so the two entry points can print different results")
    ctx.floor("R14g", n, 6, "build_tree_handling_errors implementations")


def r14c(ctx):
    m = ctx.model
    ctx.rule("R14c", "get_filetype consults the path (mimetypes.guess_type) only when no MIME type was given, and "
                     "returns the registry entry of the resulting MIME type")
    f = m.func("graphtage.graphtage.get_filetype")
    params = [a.arg for a in f.node.args.args]
    if len(params) < 2:
        ctx.inconclusive("R14c", f.file, "get_filetype", f.node, "signature", "expected (path, mime_type)")
        return
    mime = params[1]
    guesses = [n for n in walk_no_nested(f.node) if isinstance(n, ast.Call) and (call_name(n) or "").endswith("guess_type")]
    ctx.floor("R14c", len(guesses), 1, "mimetypes.guess_type calls in get_filetype")
    for g in guesses:
        facts = flatten_conditions(dominating_conditions(g))
        ok = any(pol and isinstance(t, ast.Compare) and dotted(t.left) == mime and isinstance(t.ops[0], ast.Is)
                 and isinstance(t.comparators[0], ast.Constant) and t.comparators[0].value is None for t, pol in facts)
        if ok:
            ctx.proved("R14c", f.file, "get_filetype", g, "guess_type guarded",
                       f"the path is consulted only under `{mime} is None`")
        else:
            ctx.violation("R14c", f.file, "get_filetype", g, "guess_type guarded",
                          f"mimetypes.guess_type(path) is evaluated although an explicit MIME type may have been "
                          f"given: the file's name can override --from-TYPE/--to-TYPE")
    # a decorator wraps every call of get_filetype: what it does with the path before (or instead of) the lookup is part of it
    mod_tree = m.mods[f.module] if hasattr(f, "module") else None
    for d in f.node.decorator_list:
        dn = dotted(d.func) if isinstance(d, ast.Call) else dotted(d)
        D = next((x for x in (mod_tree.body if mod_tree is not None else []) if isinstance(x, ast.FunctionDef) and x.name == dn), None)
        if D is None:
            if dn and dn.split(".")[0] not in ("functools", "lru_cache", "cache"):
                ctx.inconclusive("R14c", f.file, "get_filetype", d, f"decorator {dn}", f"get_filetype is wrapped by `{dn}`, which is not a function of this module")
            elif dn:
                ctx.violation("R14c", f.file, "get_filetype", d, f"decorator {dn}",
                              f"get_filetype is memoised by `{dn}`: the answer for one (path, MIME type) pair outlives changes of the registry")
            continue
        for g in [n for n in ast.walk(D) if isinstance(n, ast.Call) and (call_name(n) or "").endswith("guess_type")]:
            facts = flatten_conditions(dominating_conditions(g))
            ok = any(pol and isinstance(t, ast.Compare) and dotted(t.left) == mime and isinstance(t.ops[0], ast.Is)
                     and isinstance(t.comparators[0], ast.Constant) and t.comparators[0].value is None for t, pol in facts)
            if ok:
                ctx.proved("R14c", f.file, dn, g, "guess_type guarded", f"the decorator consults the path only under `{mime} is None`")
            else:
                ctx.violation("R14c", f.file, dn, g, "guess_type guarded",
                              f"`{dn}`, which wraps get_filetype, evaluates mimetypes.guess_type(path) although an explicit MIME type may "
                              f"have been given: the file's name can override (or veto) --from-TYPE/--to-TYPE")
    # stores to the mime variable other than from guess_type, and the returned lookup
    for n in walk_no_nested(f.node):
        if isinstance(n, ast.Return) and n.value is not None:
            txt = ast.unparse(n.value)
            if "FILETYPES_BY_MIME" in txt and mime in txt:
                ctx.proved("R14c", f.file, "get_filetype", n, "return registry[mime]", "returns FILETYPES_BY_MIME[mime_type]")
            else:
                ctx.violation("R14c", f.file, "get_filetype", n, "return registry[mime]",
                              f"get_filetype returns `{txt}`, not the registry entry of the selected MIME type (a cached "
                              f"or path-derived value can override the explicit type)")
    for n in walk_no_nested(f.node):
        if isinstance(n, (ast.Assign, ast.AugAssign)) :
            tg = n.targets if isinstance(n, ast.Assign) else [n.target]
            for t in tg:
                if isinstance(t, ast.Name) and t.id == mime and not any(isinstance(x, ast.Call) and (call_name(x) or "").endswith("guess_type") for x in ast.walk(n.value)):
                    ctx.violation("R14c", f.file, "get_filetype", n, f"{mime} reassigned",
                                  f"`{mime}` is reassigned from `{norm(n.value, 50)}` - not from the explicit argument or guess_type")
    # module-level mutable state written in get_filetype (a cache) makes the answer depend on earlier calls
    for n in walk_no_nested(f.node):
        if isinstance(n, ast.Subscript) and isinstance(n.ctx, ast.Store):
            d = dotted(n.value)
            if d and d.split(".")[0] not in params:
                ctx.violation("R14c", f.file, "get_filetype", n, f"store {d}[...]",
                              f"get_filetype writes module state `{d}[...]`: the type chosen for one file can leak into "
                              f"the lookup for the next")
        if isinstance(n, ast.Global):
            ctx.violation("R14c", f.file, "get_filetype", n, "global", "get_filetype rebinds module globals")


def r14d(ctx, f, specs):
    ctx.rule("R14d", "main performs no CLI-only transformation: the loaded trees are used only by dfs() (match "
                     "expressions), diff/get_all_edits/get_all_edit_contexts; the formatter is the --format type's "
                     "default formatter else the first file type's; every dest read from args exists; option "
                     "defaults keep every spelling reachable")
    fn = f.node
    tree_vars = set()
    for n in walk_no_nested(fn):
        if isinstance(n, ast.Assign) and isinstance(n.value, ast.Call) and isinstance(n.value.func, ast.Attribute) \
                and n.value.func.attr == "build_tree_handling_errors" and isinstance(n.targets[0], ast.Name):
            tree_vars.add(n.targets[0].id)
    allowed_methods = {"dfs", "diff", "get_all_edits", "get_all_edit_contexts"}
    cnt = 0
    for n in walk_no_nested(fn):
        if isinstance(n, ast.Name) and n.id in tree_vars and isinstance(n.ctx, ast.Load):
            p = parent(n)
            cnt += 1
            ok = False
            if isinstance(p, ast.Attribute) and isinstance(parent(p), ast.Call) and p.attr in allowed_methods:
                ok = True
            elif isinstance(p, ast.Call) and (call_name(p) in ("isinstance",) or (call_name(p) or "").endswith("stderr.write")):
                ok = True
            elif isinstance(p, ast.Call) and isinstance(p.func, ast.Attribute) and p.func.attr in allowed_methods:
                ok = True   # passed as the other tree
            if not ok:
                ctx.violation("R14d", f.file, "main", n, f"use of {n.id}: {norm(enclosing(n), 60)}",
                              f"the loaded tree `{n.id}` is used in `{norm(enclosing(n), 70)}`: a transformation of the "
                              f"tree that only the command line performs makes CLI output differ from the library's")
    ctx.floor("R14d", cnt, 4, "uses of the loaded trees in main")
    if cnt:
        ctx.proved("R14d", f.file, "main", fn, "tree uses", f"{cnt} uses of the loaded trees, all through "
                                                             f"{sorted(allowed_methods)} / the error test")
    # formatter selection
    sel = [n for n in walk_no_nested(fn) if isinstance(n, ast.Assign) and isinstance(n.targets[0], ast.Name)
           and isinstance(n.value, ast.Call) and ast.unparse(n.value).endswith("get_default_formatter()")]
    for n in sel:
        conds = flatten_conditions(dominating_conditions(n))
        txt = ast.unparse(n.value)
        fmt_given = [pol for t, pol in conds if f"{cli.ARGS}.format" in ast.unparse(t)]
        if f"{cli.ARGS}.format" in txt and "FILETYPES_BY_TYPENAME" in txt and txt.endswith("get_default_formatter()"):
            good = fmt_given and fmt_given[0] is True
        elif txt.endswith("get_default_formatter()") and "from" in txt.split(".")[0]:
            good = fmt_given and fmt_given[0] is False
        else:
            good = False
        if good:
            ctx.proved("R14d", f.file, "main", n, f"formatter = {norm(n.value, 50)}", "formatter selection follows --format, else the first file's type")
        else:
            ctx.violation("R14d", f.file, "main", n, f"formatter = {norm(n.value, 50)}",
                          f"formatter chosen as `{txt}` under {[ast.unparse(t) for t, _ in conds if 'format' in ast.unparse(t)]}: "
                          f"not (--format's default formatter if given else the first file type's)")
    # every args.X read must be a declared dest; every declared flag with a non-None default in an exclusive group
    for n in walk_no_nested(fn):
        if isinstance(n, ast.Attribute) and isinstance(n.value, ast.Name) and n.value.id == cli.ARGS:
            if n.attr not in specs:
                ctx.violation("R14d", f.file, "main", n, f"args.{n.attr}", f"main reads args.{n.attr} but no option declares that dest")
    call = cli.build_options_call(fn)
    if call is not None:
        # an option consulted only in an `else` arm that a defaulted sibling makes unreachable is silently ignored:
        # evaluate that every flag that participates changes the outcome for at least one setting of the others
        base = cli.eval_build_options(fn, specs, {})
        for dest, setv in (("no_key_edits", True), ("no_list_edits", True), ("no_list_edits_when_same_length", True)):
            if dest not in specs:
                ctx.violation("R14d", f.file, "main", call, f"--{dest.replace('_', '-')}", f"option {dest} disappeared")
                continue
            got = cli.eval_build_options(fn, specs, {dest: setv})
            if got == base:
                ctx.violation("R14d", f.file, "main", specs[dest].node, f"--{dest.replace('_', '-')} has effect",
                              f"setting --{dest.replace('_', '-')} leaves BuildOptions unchanged ({sorted(got.items())}): "
                              f"the option is accepted and silently ignored")
            else:
                ctx.proved("R14d", f.file, "main", specs[dest].node, f"--{dest.replace('_', '-')} has effect",
                           f"changes { {k: (base[k], got[k]) for k in got if got[k] != base[k]} }")


def r14e(ctx):
    m = ctx.model
    ctx.rule("R14e", "the output writers pass text through unchanged: where a writer tests for '\\n' it splits on '\\n' "
                     "only (str.splitlines() also breaks on \\r, \\f, \\x85, U+2028..., and drops the separator, so the "
                     "status-buffered CLI stream would differ from the library's)")
    n = 0
    for f in sorted(m.functions.values(), key=lambda f: f.qual):
        if f.module not in ("graphtage.progress", "graphtage.printer") or ".<locals>." in f.qual:
            continue
        sl = [c for c in walk_no_nested(f.node) if isinstance(c, ast.Call) and isinstance(c.func, ast.Attribute)
              and c.func.attr == "splitlines"]
        nl = [c for c in walk_no_nested(f.node) if isinstance(c, ast.Constant) and c.value == "\n"]
        sp = [c for c in walk_no_nested(f.node) if isinstance(c, ast.Call) and isinstance(c.func, ast.Attribute)
              and c.func.attr == "split" and c.args and isinstance(c.args[0], ast.Constant) and c.args[0].value == "\n"]
        if sl and nl:
            n += 1
            ctx.violation("R14e", f.file, f.short, sl[0], f"{f.short} splitlines",
                          f"{f.short} decides on '\\n' but splits with `{norm(sl[0], 40)}`: text containing \\r, \\x0b, \\x0c, "
                          f"\\x1c-\\x1e, \\x85, U+2028 or U+2029 is broken into extra lines and the separator is lost on the "
                          f"status-buffered (CLI) path only")
        elif sp:
            n += 1
            ctx.proved("R14e", f.file, f.short, sp[0], f"{f.short} split", "splits on '\\n' exactly")
    ctx.floor("R14e", n, 1, "line-splitting sites in the output writers")


def enclosing(n):
    while n is not None and not isinstance(n, ast.stmt):
        n = parent(n)
    return n


def r14f(ctx):
    m = ctx.model
    ctx.rule("R14f", "--color reaches the output: a Printer without an explicit ansi_color takes it from out_stream.isatty(), and "
                     "a colour Printer calls colorama.init(), which for a redirected sys.stdout installs a wrapper that STRIPS "
                     "ANSI escapes; so no Printer built at import time (before main builds its own on sys.stdout) may come out "
                     "as a colour printer through a writer class whose isatty() answers True unconditionally")
    mod = "graphtage.printer"
    tree = m.mods[mod]
    n = 0
    for st in m.toplevel(tree):
        if not isinstance(st, (ast.Assign, ast.AnnAssign)) or st.value is None:
            continue
        c = st.value
        if not (isinstance(c, ast.Call) and m.resolve_class(mod, c.func) == m.find_class("Printer")):
            continue
        n += 1
        name = dotted(st.targets[0] if isinstance(st, ast.Assign) else st.target)
        ac = kwarg(c, "ansi_color", 1)
        if ac is not None and not (isinstance(ac, ast.Constant) and ac.value is None):
            ctx.proved("R14f", m.files[mod], "<module>", st, f"{name} colour", f"ansi_color is given explicitly (`{norm(ac)}`)")
            continue
        out = kwarg(c, "out_stream", 0)
        wq = m.resolve_class(mod, out.func) if isinstance(out, ast.Call) else None
        if wq is None:
            ctx.proved("R14f", m.files[mod], "<module>", st, f"{name} colour", "prints to the real sys.stdout: colour iff it is a terminal "
                       "(colorama then wraps a tty without stripping)", nontrivial=False)
            continue
        isa = m.method(wq, "isatty")
        rets = [r for r in walk_no_nested(isa.node) if isinstance(r, ast.Return)] if isa else []
        always = rets and all(isinstance(r.value, ast.Constant) and r.value.value is True for r in rets)
        ws = wq.rsplit(".", 1)[-1]
        if always:
            ctx.violation("R14f", isa.file, f"{ws}.isatty", rets[0], f"{name} colour",
                          f"`{name} = {norm(c, 60)}` is built at import time; {ws}.isatty() always answers True, so it becomes a colour "
                          f"printer and runs colorama.init() before main(): with stdout redirected that wraps sys.stdout in an "
                          f"escape-stripping stream, main's printer is built on the wrapper, and `graphtage --color a b | cat` prints "
                          f"no colour although Printer(stream, ansi_color=True) in the library does")
        else:
            ctx.proved("R14f", m.files[mod], "<module>", st, f"{name} colour", f"{ws}.isatty() does not claim a terminal")
    ctx.floor("R14f", n, 2, "Printer objects built at import time")


def run(ctx):
    m = ctx.model
    f, specs, groups = cli.parse_cli(m)
    ctx.extra = {"argparse": {"dests": sorted(specs), "exclusive_groups": {k: v for k, v in groups.items()}}}
    r14a(ctx, f)
    r14b(ctx, f, specs, groups)
    r14c(ctx)
    r14d(ctx, f, specs)
    r14e(ctx)
    r14f(ctx)
    r14g(ctx)
    ctx.assume("where options may be placed relative to the two file names (argparse's intermixed parsing) and whether --quiet "
               "silences third-party progress bars on stderr are not part of what is decided")
    ctx.assume("argparse semantics (dest derivation, store_const, mutually exclusive groups) as documented")
    ctx.assume("the library pipeline is build_tree -> TreeNode.diff -> formatter.print; output writers below "
               "Printer.write (status-line buffering) are not analysed")
