"""C17 / ordering through IterativeTighteningSearch.remove_best loses items.

The docstring of remove_best gives a recipe that is said "to generate a total ordering over the input
sequence".  Run literally, it silently drops every candidate the search has discarded as non-optimal.
"""
import sys
from graphtage.bounds import Range
from graphtage.search import IterativeTighteningSearch


class Item:
    def __init__(self, name, *schedule):
        self.name, self.schedule, self.i = name, schedule, 0

    @property
    def final(self):
        return self.schedule[-1][0]

    def bounds(self):
        return Range(*self.schedule[self.i])

    def tighten_bounds(self):
        if self.i + 1 < len(self.schedule):
            self.i += 1
            return True
        return False

    def __repr__(self):
        return f"{self.name}{list(self.schedule[self.i])}->{self.final}"


def documented_recipe(search):
    # verbatim from the docstring of IterativeTighteningSearch.remove_best
    while search.tighten_bounds():
        while not search.goal_test() and search.tighten_bounds():
            pass
        if search.goal_test():
            yield search.remove_best()
    while search.goal_test():
        yield search.remove_best()


def check(items):
    out = []
    for x in documented_recipe(IterativeTighteningSearch(iter(items))):
        out.append(x)
        if len(out) > 10 * len(items):
            break
    finals = [x.final for x in out]
    expected = sorted(i.final for i in items)
    if finals != expected:
        print(f"input {items}: recipe yielded finals {finals}, a total ordering would be {expected}")
        return False
    return True


ok = True
# minimal: one definitive item and one item that needs two tightenings
ok &= check([Item('A', (0, 0)), Item('B', (0, 3), (1, 3), (1, 1))])
# four items: 0 and 2 come out, the items with final cost 1 and 3 vanish (so "2" is yielded although "1" exists)
ok &= check([Item('A', (0, 3), (0, 1), (0, 0)),
             Item('B', (-3, 5), (-1, 3), (0, 3), (1, 1)),
             Item('C', (1, 3), (2, 2)),
             Item('D', (-1, 3), (0, 3), (3, 3))])
sys.exit(0 if ok else 1)
