"""C15: complete integer tables whose weights are all strictly below 2**53 in magnitude (each one exactly
representable as a double, i.e. below the threshold named in the known limitation) still get a non-minimal pairing."""
import itertools
import sys

from graphtage.matching import min_weight_bipartite_matching

B = 2 ** 53
TABLES = [
    [[B - 2, 2 ** 52 + 1],
     [B - 1, 2 ** 52 + 1]],
    [[-(B - 2), -(B - 2)],
     [-(B - 1), -(B - 2)]],
    [[2 ** 52, 3 * 2 ** 51 + 1, 2],
     [B - 2, 2 ** 52 - 1, 0],
     [B - 4, B - 2, B - 3]],
]

failed = False
for table in TABLES:
    n = len(table)
    assert all(abs(w) < B and float(w) == w for row in table for w in row)
    result = min_weight_bipartite_matching(range(n), range(n), lambda i, j: table[i][j])
    pairs = {int(i): int(j) for i, (j, _) in result.items()}
    assert len(set(pairs.values())) == len(pairs) == n
    got = sum(w for _, w in result.values())
    best, perm = min((sum(table[i][p[i]] for i in range(n)), p) for p in itertools.permutations(range(n)))
    if got != best:
        failed = True
        print(f"table {table}: returned {pairs} with total {got}, but {dict(enumerate(perm))} has total {best} "
              f"(excess {got - best}); max |w| = {max(abs(w) for r in table for w in r)} < 2**53")
sys.exit(1 if failed else 0)
