"""C07 witness 4: for a document read from standard input, the diagnostics name the random temporary file.

`graphtage - b.json` copies stdin into a NamedTemporaryFile and hands that path to the loaders; every message that is
built from the path ("Error parsing <basename>", "Could not determine the filetype for <path>") therefore contains
eight random characters, so two runs on the same bytes never print the same text (exit status is stable).
"""
import os
import subprocess
import sys
import tempfile


def run(args, stdin):
    proc = subprocess.run([sys.executable, "-m", "graphtage", "--quiet"] + args, input=stdin,
                          stdout=subprocess.PIPE, stderr=subprocess.PIPE)
    return proc.returncode, proc.stdout, proc.stderr


def main() -> int:
    bad = []
    with tempfile.TemporaryDirectory() as tmp:
        b = os.path.join(tmp, "b.json")
        with open(b, "w") as f:
            f.write('{"a": 1}')
        scenarios = {
            "malformed JSON on stdin": (["--from-json", "-", b], b'{"a": '),
            "stdin without a type flag": (["-", b], b'{"a": 1}'),
        }
        for name, (args, stdin) in scenarios.items():
            first = run(args, stdin)
            second = run(args, stdin)
            if first != second:
                bad.append((name, first, second))
    if bad:
        print("VIOLATION: identical input, identical options, different bytes printed:")
        for name, first, second in bad:
            print(f"  [{name}]")
            print(f"    run 1: rc={first[0]} stdout={first[1]!r} stderr={first[2]!r}")
            print(f"    run 2: rc={second[0]} stdout={second[1]!r} stderr={second[2]!r}")
        return 1
    print("ok: both runs printed the same bytes")
    return 0


if __name__ == "__main__":
    sys.exit(main())
