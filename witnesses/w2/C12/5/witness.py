"""C12 witness: a JSON5 (or JSON, or YAML) document containing NaN prints fine ("NaN") and the text is accepted by
the loader, but the reloaded document never compares equal to the original: LeafNode.__eq__ compares the wrapped
floats with ==, and nan != nan.  NaN is a first-class JSON5 value ("extreme numbers")."""
import os
import sys
import tempfile
from io import StringIO

import graphtage
from graphtage.printer import Printer


def load(ft, text, suffix):
    fd, path = tempfile.mkstemp(suffix=suffix)
    try:
        with os.fdopen(fd, 'wb') as f:
            f.write(text.encode('utf-8'))
        return ft.build_tree(path)
    finally:
        os.unlink(path)


def main():
    bad = []
    for name, src in (
        ('json5', 'NaN'),
        ('json5', '{a: [1, NaN], b: Infinity}'),
        ('json', '[NaN]'),          # Python's json module (the JSON loader) accepts NaN as well
        ('json', '{"a": NaN}'),
        ('yaml', 'a: .nan\n'),
    ):
        ft = graphtage.FILETYPES_BY_TYPENAME[name]
        tree = load(ft, src, '.' + name)
        out = StringIO()
        ft.get_default_formatter().print(Printer(out_stream=out, ansi_color=False, quiet=True), tree)
        printed = out.getvalue()
        try:
            again = load(ft, printed, '.' + name)
        except Exception as e:
            bad.append(f'{name} {src!r}: printed {printed!r} rejected: {e!r}')
            continue
        if not (tree == again and again == tree):
            bad.append(f'{name} {src!r}: printed {printed!r}; loaded {tree!r} != reloaded {again!r}')
    if bad:
        print('VIOLATION: documents containing NaN do not load back equal')
        for b in bad:
            print('  ' + b)
        return 1
    print('ok')
    return 0


if __name__ == '__main__':
    sys.exit(main())
