"""Recognition of "pair up two sequences while they are equal" scans - inline loops or helper functions - shared by the
rules that reason about EditDistance's prefix/suffix trimming (R01b, R02a)."""
import ast

from .astx import walk_no_nested, call_name, self_attr, dominating_conditions, flatten_conditions, func_params, dotted


def _zip_of(it):
    if isinstance(it, ast.Call) and call_name(it) == "zip":
        return it, None
    if isinstance(it, ast.Call) and (call_name(it) or "").rsplit(".", 1)[-1] == "islice" and len(it.args) == 2 \
            and isinstance(it.args[0], ast.Call) and call_name(it.args[0]) == "zip":
        return it.args[0], it.args[1]
    return None, None


def _loop_facts(lp):
    """(list expression appended to, guarded by equality?, stops at first difference?) for a `for x, y in zip(..)` loop."""
    tv = [x.id for x in lp.target.elts] if isinstance(lp.target, ast.Tuple) and all(isinstance(x, ast.Name) for x in lp.target.elts) else []
    if len(tv) != 2:
        return None
    a, b = tv
    eqs = (f"{a}=={b}", f"{b}=={a}")
    neqs = (f"{a}!={b}", f"{b}!={a}")
    for c in ast.walk(lp):
        if isinstance(c, ast.Call) and isinstance(c.func, ast.Attribute) and c.func.attr == "append" and c.args:
            arg = c.args[0]
            pair = isinstance(arg, ast.Tuple) and [dotted(x) for x in arg.elts] == [a, b]
            pos, neg = [], []
            for t, pol in flatten_conditions(dominating_conditions(c, stop=lp)):
                txt = ast.unparse(t).replace(" ", "")
                (pos if pol else neg).append(txt)
            guarded = any(e in pos for e in eqs) or any(e in neg for e in neqs) or any(f"not{e}" in neg for e in eqs)
            # early-exit form: `if not a == b: break` (or `if a != b: break`) before the append in the same body
            if not guarded:
                for s_ in lp.body:
                    if s_ is c or any(x is c for x in ast.walk(s_)):
                        break
                    if isinstance(s_, ast.If) and any(isinstance(x, (ast.Break, ast.Return)) for x in s_.body) and not s_.orelse:
                        tt = ast.unparse(s_.test).replace(" ", "")
                        if tt in neqs or tt in tuple(f"not{e}" for e in eqs) or tt in tuple(f"not({e})" for e in eqs):
                            guarded = True
            stops = any(isinstance(x, (ast.Break, ast.Return)) for x in ast.walk(lp))
            return c.func.value, pair and guarded, stops
    return None


def takewhile_scan(e):
    """`list(itertools.takewhile(lambda p: p[0] == p[1], zip(A, B)))` -> ([A, B], guarded) or None."""
    if not (isinstance(e, ast.Call) and call_name(e) in ("list", "tuple") and len(e.args) == 1):
        return None
    tw = e.args[0]
    if not (isinstance(tw, ast.Call) and (call_name(tw) or "").rsplit(".", 1)[-1] == "takewhile" and len(tw.args) == 2):
        return None
    pred, src = tw.args
    if not (isinstance(src, ast.Call) and call_name(src) == "zip" and len(src.args) == 2):
        return None
    guarded = False
    if isinstance(pred, ast.Lambda) and len(pred.args.args) == 1 and not pred.args.defaults:
        pv = pred.args.args[0].arg
        guarded = ast.unparse(pred.body).replace(" ", "") in (f"{pv}[0]=={pv}[1]", f"{pv}[1]=={pv}[0]")
    return list(src.args), guarded


def helper_is_equal_pair_scan(fi):
    """Does function fi(A, B) return the list of leading pairs of zip(A, B) that are equal?  -> (guarded, stops) or None."""
    ps = [p for p in func_params(fi.node) if p not in ("self", "cls")]
    if len(ps) != 2:
        return None
    rets_ = [r for r in walk_no_nested(fi.node) if isinstance(r, ast.Return) and r.value is not None]
    if len(rets_) == 1:
        from .astx import resolve_local
        tw = takewhile_scan(resolve_local(fi.node, rets_[0].value))
        if tw is not None and [dotted(x) for x in tw[0]] == ps:
            return tw[1], True      # takewhile stops at the first pair its predicate rejects
    for lp in walk_no_nested(fi.node):
        if isinstance(lp, ast.For):
            zc, bound = _zip_of(lp.iter)
            if zc is None or bound is not None or [dotted(x) for x in zc.args] != ps:
                continue
            facts = _loop_facts(lp)
            if facts is None:
                continue
            lst, guarded, stops = facts
            rets = [r for r in walk_no_nested(fi.node) if isinstance(r, ast.Return) and r.value is not None]
            if isinstance(lst, ast.Name) and rets and all(isinstance(r.value, ast.Name) and r.value.id == lst.id for r in rets):
                return guarded, stops
    return None


def equal_pair_scans(model, cls_q, init):
    """[{attr, args (the two zipped expressions, in init's scope), bound, guarded, stops, node}] for every self.<attr> list of
    init that is filled by an equal-pair scan (inline loop or helper call)."""
    out = []
    for lp in walk_no_nested(init.node):
        if isinstance(lp, ast.For):
            zc, bound = _zip_of(lp.iter)
            if zc is None:
                continue
            facts = _loop_facts(lp)
            if facts is None or not self_attr(facts[0]):
                continue
            out.append({"attr": self_attr(facts[0]), "args": list(zc.args), "bound": bound, "guarded": facts[1], "stops": facts[2],
                        "node": lp, "via": "loop"})
    for a in walk_no_nested(init.node):
        if isinstance(a, (ast.Assign, ast.AnnAssign)) and a.value is not None and isinstance(a.value, ast.Call):
            tgt = a.targets[0] if isinstance(a, ast.Assign) else a.target
            attr = self_attr(tgt)
            tw = takewhile_scan(a.value) if attr else None
            if tw is not None:
                out.append({"attr": attr, "args": tw[0], "bound": None, "guarded": tw[1], "stops": True, "node": a, "via": "takewhile"})
                continue
            if not attr or len(a.value.args) != 2:
                continue
            fn = a.value.func
            h = None
            if isinstance(fn, ast.Attribute) and isinstance(fn.value, ast.Name) and fn.value.id in ("self", "cls"):
                h = model.method(cls_q, fn.attr)
            elif isinstance(fn, ast.Attribute) and model.resolve_class(init.module, fn.value) == cls_q:
                h = model.method(cls_q, fn.attr)
            elif isinstance(fn, ast.Name):
                r = model.lookup(init.module, fn.id)
                h = model.functions.get(r[1]) if r and r[0] == "func" else None
            if h is None:
                continue
            res = helper_is_equal_pair_scan(h)
            if res is None:
                continue
            out.append({"attr": attr, "args": list(a.value.args), "bound": None, "guarded": res[0], "stops": res[1], "node": a,
                        "via": f"helper {h.short}"})
    return out
