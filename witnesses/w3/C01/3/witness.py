"""A multiset (or DictNode) whose *from* side holds an element twice never finishes diffing: the two copies collapse
into one entry of WeightedBipartiteMatcher's matching, its bounds fall below its own initial lower bound and
repeat_until_tightened() spins forever."""
import logging
import signal
import sys

logging.disable(logging.CRITICAL)   # the endless loop logs one warning per iteration

from graphtage import DictNode, IntegerNode, KeyValuePairNode, MultiSetNode, StringNode
from graphtage.edits import Insert, Remove
from graphtage.printer import DEFAULT_PRINTER

DEFAULT_PRINTER.quiet = True
TIMEOUT = 10


class Hang(Exception):
    pass


def on_alarm(*_):
    raise Hang()


signal.signal(signal.SIGALRM, on_alarm)


def kv(k, v):
    return KeyValuePairNode(StringNode(k), v)


CASES = [
    ("multiset {1, 1} -> {22, 'abc'}",
     lambda: MultiSetNode([IntegerNode(1), IntegerNode(1)]),
     lambda: MultiSetNode([IntegerNode(22), StringNode('abc')])),
    ("multiset {1, 1, 5} -> {22, 'abc', 5}",
     lambda: MultiSetNode([IntegerNode(1), IntegerNode(1), IntegerNode(5)]),
     lambda: MultiSetNode([IntegerNode(22), StringNode('abc'), IntegerNode(5)])),
    ("DictNode {a: 1, a: 1} -> {b: 22, c: 'abc'}",
     lambda: DictNode([kv('a', IntegerNode(1)), kv('a', IntegerNode(1))]),
     lambda: DictNode([kv('b', IntegerNode(22)), kv('c', StringNode('abc'))])),
]

failures = []
for name, make_from, make_to in CASES:
    a, b = make_from(), make_to()
    try:
        signal.alarm(TIMEOUT)
        diff = a.diff(b)
        subs = list(diff.edit.edits()) if hasattr(diff.edit, 'edits') else []
        signal.alarm(0)
    except Hang:
        failures.append(f"{name}: diff() did not return within {TIMEOUT}s")
        continue
    finally:
        signal.alarm(0)
    # if it does return, every element of either side has to be accounted for exactly once
    n_from = sum(1 for e in subs if not isinstance(e, Insert))
    n_to = sum(1 for e in subs if not isinstance(e, Remove))
    if n_from != len(a) or n_to != len(b):
        failures.append(f"{name}: {n_from}/{len(a)} source and {n_to}/{len(b)} target elements accounted for: {subs}")

if failures:
    print("C01 violated (no edit script for multisets with a repeated source element):")
    for f in failures:
        print("  -", f)
    sys.exit(1)
print("ok")
sys.exit(0)
