"""Explicit-raise scan of pure-Python parser sources (standard library / site-packages), by reading their source.

Nothing here is the code under analysis; the modules are the interpreter's own library files.  The scan computes the
functions reachable (by name, within the given source files) from a load entry point and collects the exception
classes of their `raise` statements.  Implicit exceptions (AttributeError on None, IndexError, ...) are out of
reach of this scan and are stated as not decided.
"""
import ast
import builtins
import importlib
import importlib.util
import os


def source_of(modname):
    spec = importlib.util.find_spec(modname)
    if spec is None or not spec.origin or not spec.origin.endswith(".py"):
        return None
    return spec.origin


def explicit_raises(modnames, entry_names):
    """{exception class name: [(file, line)]} for raise statements reachable from entry_names."""
    defs = {}      # name -> list of (file, node)
    trees = []
    for mn in modnames:
        p = source_of(mn)
        if p is None:
            continue
        with open(p, encoding="utf-8") as f:
            t = ast.parse(f.read(), p)
        trees.append((p, t))
        for n in ast.walk(t):
            if isinstance(n, (ast.FunctionDef, ast.ClassDef)):
                defs.setdefault(n.name, []).append((p, n))
    seen, work = set(), list(entry_names)
    raised = {}
    while work:
        name = work.pop()
        if name in seen:
            continue
        seen.add(name)
        for p, node in defs.get(name, ()):
            body_nodes = ast.walk(node)
            for n in body_nodes:
                if isinstance(n, ast.Raise) and n.exc is not None:
                    e = n.exc.func if isinstance(n.exc, ast.Call) else n.exc
                    nm = e.attr if isinstance(e, ast.Attribute) else getattr(e, "id", None)
                    if nm:
                        raised.setdefault(nm, []).append((os.path.basename(p), n.lineno))
                elif isinstance(n, ast.Name) and n.id in defs and n.id not in seen:
                    work.append(n.id)
                elif isinstance(n, ast.Attribute) and isinstance(n.value, ast.Name) and n.value.id in ("self", "cls") \
                        and n.attr in defs and n.attr not in seen:
                    work.append(n.attr)
                elif isinstance(n, (ast.FunctionDef,)) and n is not node and isinstance(node, ast.ClassDef):
                    # every method of a reachable class
                    if n.name not in seen:
                        work.append(n.name)
    return raised, sorted(seen & set(defs))


def resolve_exc(name, modnames):
    """Exception class object for a raised name: module attribute, then builtin."""
    for mn in modnames:
        try:
            mod = importlib.import_module(mn)
        except Exception:
            continue
        if hasattr(mod, name) and isinstance(getattr(mod, name), type):
            return getattr(mod, name)
    b = getattr(builtins, name, None)
    return b if isinstance(b, type) else None


def instance_attrs(cls):
    """Attribute names instances of an exception class carry: class attrs + `self.X =` in __init__ along the MRO."""
    import inspect
    out = set(dir(cls))
    for k in cls.__mro__:
        try:
            src = inspect.getsource(k)
        except (OSError, TypeError):
            continue
        try:
            t = ast.parse(inspect.cleandoc("\n" + src) if src.startswith(" ") else src)
        except SyntaxError:
            continue
        for n in ast.walk(t):
            if isinstance(n, ast.Attribute) and isinstance(n.ctx, ast.Store) and isinstance(n.value, ast.Name) \
                    and n.value.id == "self":
                out.add(n.attr)
    return out
