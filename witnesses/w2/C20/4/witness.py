#!/usr/bin/env python
"""C20 witness 4: an XML plist whose <date> lost its day (or month and day) makes the command die with an uncaught
TypeError raised inside plistlib, instead of `Error parsing <file>: ...`.

Exit 1 when the violation shows, 0 otherwise."""
import os
import subprocess
import sys
import tempfile

HEAD = b'<?xml version="1.0" encoding="UTF-8"?>\n<plist version="1.0">\n<dict>\n\t<key>when</key>\n\t<date>'
TAIL = b'</date>\n</dict>\n</plist>\n'
FULL = b'2020-01-02T03:04:05Z'           # the only form Apple's tools write and read
BAD = {
    "no_day.plist": b'2020-01Z',         # FULL with `-02T03:04:05` deleted
    "no_month.plist": b'2020Z',          # FULL with `-01-02T03:04:05` deleted
}
GOOD = b'<?xml version="1.0" encoding="UTF-8"?>\n<plist version="1.0">\n<dict>\n\t<key>when</key>\n\t<string>x</string>\n</dict>\n</plist>\n'


def run_cli(args, cwd):
    return subprocess.run([sys.executable, "-m", "graphtage", "--no-status", "--no-color"] + args, cwd=cwd,
                          stdout=subprocess.PIPE, stderr=subprocess.PIPE, timeout=120)


def main():
    failures = []
    with tempfile.TemporaryDirectory() as d:
        with open(os.path.join(d, "good.plist"), "wb") as f:
            f.write(GOOD)
        for bad, date in BAD.items():
            with open(os.path.join(d, bad), "wb") as f:
                f.write(HEAD + date + TAIL)
            for args in ([bad, "good.plist"], ["good.plist", bad]):
                p = run_cli(args, d)
                err = p.stderr.decode("utf-8", "replace")
                problems = []
                if "Traceback (most recent call last)" in err:
                    problems.append("uncaught exception: " + err.strip().splitlines()[-1])
                if "Error parsing " + bad not in err:
                    problems.append("no `Error parsing %s` message on stderr" % bad)
                if p.returncode == 0:
                    problems.append("exit status 0")
                if p.stdout.strip():
                    problems.append("something was printed on stdout")
                if problems:
                    failures.append((date, args, problems))
    if failures:
        print("C20 VIOLATED: a plist with a mutilated <date> is not reported as a parse error")
        for date, args, problems in failures:
            print(f"  graphtage {' '.join(args)}   (<date>{date.decode()}</date>)")
            for pr in problems:
                print(f"      - {pr}")
        return 1
    print("ok: every plist with a mutilated <date> was reported as an error naming the file")
    return 0


if __name__ == "__main__":
    sys.exit(main())
