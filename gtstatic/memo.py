"""E13 - a memo is keyed by everything its value depends on.

`self._cache[K] = V` on an object whose other attributes can change: if V is computed from attributes of `self` that are
not part of K, the first value computed for K is served for ever - a printer that memoises `indent_str * indents` by
`indents` alone keeps the four-space indentation of the JSON document it printed first when a YAML formatter switches it
to two spaces.
"""
import ast

from .astx import walk_no_nested, self_attr, dotted, _set_parents
from .core import Inconclusive

POSITIVE = """
class P:
    def pad(self):
        s = self._cache.get(self.level)
        if s is None:
            s = self.unit * self.level
            self._cache[self.level] = s
        return s
"""
NEGATIVE = """
class P:
    def pad(self):
        key = (self.unit, self.level)
        s = self._cache.get(key)
        if s is None:
            s = self.unit * self.level
            self._cache[key] = s
        return s
"""


def _self_attrs(e, exclude=()):
    return {self_attr(x) for x in ast.walk(e) if isinstance(x, ast.Attribute) and self_attr(x) and self_attr(x) not in exclude
            and isinstance(getattr(x, "ctx", None), ast.Load)}


def scan(fn, mutable=None):
    """[(verdict, store node, cache attr, missing attrs)] for every `self.C[K] = V` in method fn."""
    out = []
    assigns = {}
    for a in walk_no_nested(fn):
        if isinstance(a, (ast.Assign, ast.AnnAssign)) and a.value is not None:
            t = a.targets[0] if isinstance(a, ast.Assign) else a.target
            if isinstance(t, ast.Name):
                assigns.setdefault(t.id, []).append(a.value)
    for a in walk_no_nested(fn):
        # `self.C[K] = V`, also as one target of a chained assignment (`x = self.C[K] = V`)
        tg_ = next((t_ for t_ in a.targets if isinstance(t_, ast.Subscript) and self_attr(t_.value)), None) if isinstance(a, ast.Assign) else None
        if tg_ is None:
            continue
        cache = self_attr(tg_.value)
        key = tg_.slice
        # memo shape only: the store happens on a miss - under a test that reads the same cache (`x = self.C.get(K)` ... `if x is
        # None:`, `if K not in self.C:`) or in a KeyError handler; any other keyed store is ordinary state, not a memo
        from .astx import dominating_conditions, flatten_conditions, ancestors
        miss = False
        for t, pol in flatten_conditions(dominating_conditions(a)):
            names = {x.id for x in ast.walk(t) if isinstance(x, ast.Name)}
            reads_cache = any(isinstance(y, ast.Attribute) and self_attr(y) == cache for y in ast.walk(t)) or any(
                any(isinstance(y, ast.Attribute) and self_attr(y) == cache for v in assigns.get(nm, ()) for y in ast.walk(v)) for nm in names)
            if reads_cache:
                miss = True
        if any(isinstance(h, ast.ExceptHandler) and h.type is not None and "KeyError" in ast.unparse(h.type) for h in ancestors(a)):
            miss = True
        if not miss:
            continue

        def expand(e, depth=0):
            attrs = _self_attrs(e, exclude=(cache,))
            if depth < 3:
                for x in ast.walk(e):
                    if isinstance(x, ast.Name) and x.id in assigns:
                        for v in assigns[x.id]:
                            # reads of the cache itself are not inputs of the value
                            if any(isinstance(y, ast.Attribute) and self_attr(y) == cache for y in ast.walk(v)):
                                continue
                            attrs |= expand(v, depth + 1)
            return attrs
        # method calls on self make the value depend on unknown state: not decided
        if any(isinstance(x, ast.Call) and isinstance(x.func, ast.Attribute) and isinstance(x.func.value, ast.Name) and x.func.value.id == "self"
               for v in [a.value] for x in ast.walk(v)):
            continue
        v_attrs, k_attrs = expand(a.value), expand(key)
        if not v_attrs:
            continue
        missing = sorted(v_attrs - k_attrs)
        if mutable is not None:
            missing = [x for x in missing if x in mutable]      # attributes fixed at construction cannot go stale
        out.append(("bad" if missing else "ok", a, cache, missing))
    return out


def scan_missing(cls_node, mutable):
    """A dict subclass that computes entries on demand (`__missing__(self, key)`) is a memo keyed by `key` alone: the value may
    read nothing mutable but the key.  [(node, attr)] for reads of mutable attributes (of self, or of an object self refers to)."""
    out = []
    for fn in cls_node.body:
        if not (isinstance(fn, ast.FunctionDef) and fn.name == "__missing__"):
            continue
        stores = any(isinstance(a, ast.Assign) and any(isinstance(t, ast.Subscript) and isinstance(t.value, ast.Name) and t.value.id == "self" for t in a.targets)
                     for a in walk_no_nested(fn)) or any(isinstance(c, ast.Call) and isinstance(c.func, ast.Attribute) and c.func.attr in ("setdefault", "__setitem__")
                                                         and isinstance(c.func.value, ast.Name) and c.func.value.id == "self" for c in walk_no_nested(fn))
        if not stores:
            continue
        for x in walk_no_nested(fn):
            if isinstance(x, ast.Attribute) and isinstance(x.ctx, ast.Load) and x.attr in mutable:
                root = x.value
                while isinstance(root, ast.Attribute):
                    root = root.value
                if isinstance(root, ast.Name) and root.id == "self" and not (isinstance(x.value, ast.Name) and False):
                    out.append((x, x.attr))
    return out


def e13(ctx):
    m = ctx.model
    ctx.rule("E13", "memo keys are complete: where a method stores `self.<cache>[K] = V`, every attribute of self that V is computed "
                    "from appears in K (a value cached under part of its inputs is served stale when the rest changes: formatters "
                    "switch a printer's indent_str between documents)")
    pos = scan(_set_parents(ast.parse(POSITIVE)).body[0].body[0])
    neg = scan(_set_parents(ast.parse(NEGATIVE)).body[0].body[0])
    if [v for v, *_ in pos] != ["bad"] or [v for v, *_ in neg] != ["ok"]:
        raise Inconclusive(f"E13 self-test: embedded examples judged {[v for v, *_ in pos]} / {[v for v, *_ in neg]}")
    # attribute names that are assigned somewhere outside a constructor (on self or on any other object: `printer.indent_str = ...`)
    mutable = set()
    for fq, f in m.functions.items():
        for x in walk_no_nested(f.node):
            if isinstance(x, ast.Attribute) and isinstance(x.ctx, ast.Store) and not (f.node.name == "__init__" and self_attr(x)):
                mutable.add(x.attr)
    n = bad = scanned = 0
    for fq, f in sorted(m.functions.items()):
        if not f.cls:
            continue
        scanned += 1
        for verdict, node, cache, missing in scan(f.node, mutable):
            n += 1
            if verdict == "bad":
                bad += 1
                ctx.violation("E13", f.file, f.short, node, f"self.{cache}[...] key",
                              f"`{ast.unparse(node)[:70]}` caches a value computed from self.{', self.'.join(missing)} under a key that does "
                              f"not contain {'it' if len(missing) == 1 else 'them'}: once {'that attribute changes' if len(missing) == 1 else 'they change'} "
                              f"(formatters assign a printer's indent_str for the duration of a document) the cached value is stale, and "
                              f"text printed later comes out with the earlier document's value")
            else:
                ctx.proved("E13", f.file, f.short, node, f"self.{cache}[...] key", "the key covers every attribute the value is computed from")
    for cq, (mod_, cnode) in sorted(m.classes.items()):
        for x, attr in scan_missing(cnode, mutable):
            n += 1
            bad += 1
            ctx.violation("E13", m.files[mod_], f"{cq.rsplit('.', 1)[-1]}.__missing__", x, f"{cq.rsplit('.', 1)[-1]} entries",
                          f"`{ast.unparse(x)[:50]}` is read when an entry of {cq.rsplit('.', 1)[-1]} is computed and stored under its key alone; "
                          f"`{attr}` is assigned elsewhere in the package (formatters set a printer's indent_str for the duration of a document), "
                          f"so entries computed before the change are served after it")
    if not bad:
        ctx.proved("E13", "graphtage/", "-", None, "memo keys complete", f"{scanned} methods scanned, {n} keyed stores on self, none under-keyed "
                                                                        f"(embedded positive and negative examples judged as expected)")
    ctx.floor("E13", scanned, 300, "methods scanned for memo stores")


# ---- E13b: value-keyed memo decorators over raw document scalars -------------------------------------------------------------
POSITIVE_B = """
from functools import lru_cache
@lru_cache(maxsize=1024)
def _dist(a, b):
    return len(str(a)) - len(str(b))
class Leaf:
    def edits(self, node):
        return _dist(self.object, node.object)
"""
NEGATIVE_B = """
from functools import lru_cache
@lru_cache(maxsize=1024, typed=True)
def _dist(a, b):
    return len(str(a)) - len(str(b))
@lru_cache(maxsize=None)
def _sdist(a, b):
    return len(a) - len(b)
class Leaf:
    def edits(self, node):
        return _dist(self.object, node.object) + _sdist(str(self.object), str(node.object))
"""
_MEMO_DECORATORS = {"lru_cache", "cache", "functools.lru_cache", "functools.cache"}
_TEXTUAL = {"str", "repr", "ascii", "type", "len", "id", "hash"}


def _memo_decorated(tree):
    """{function name: (def node, typed?)} for functions under functools.lru_cache / functools.cache, as decorators or as
    `name = lru_cache(...)(f)` rebinding."""
    out = {}

    def deco(d):
        call = d if isinstance(d, ast.Call) else None
        f = call.func if call else d
        name = dotted(f)
        if name not in _MEMO_DECORATORS:
            return None
        typed = bool(call) and any(k.arg == "typed" and isinstance(k.value, ast.Constant) and k.value.value is True for k in call.keywords)
        return typed

    for n in ast.walk(tree):
        if isinstance(n, (ast.FunctionDef, ast.AsyncFunctionDef)):
            for d in n.decorator_list:
                t = deco(d)
                if t is not None:
                    out[n.name] = (n, t)
        elif isinstance(n, ast.Assign) and isinstance(n.value, ast.Call) and len(n.targets) == 1:
            t = deco(n.value.func) if isinstance(n.value.func, ast.Call) or dotted(n.value.func) in _MEMO_DECORATORS else None
            if t is not None and n.value.args:
                tgt = dotted(n.targets[0])
                if tgt:
                    out[tgt.split(".")[-1]] = (n, t)
    return out


def _raw_scalar_args(call):
    """Arguments of a call that hand over a node's wrapped Python object (`<x>.object`) as such, not its text or type."""
    bad = []
    for a in list(call.args) + [k.value for k in call.keywords]:
        for x in ast.walk(a):
            if isinstance(x, ast.Attribute) and x.attr == "object":
                p, wrapped = getattr(x, "_parent", None), False
                while p is not None and p is not call:
                    if isinstance(p, ast.Call) and dotted(p.func) in _TEXTUAL:
                        wrapped = True
                        break
                    p = getattr(p, "_parent", None)
                if not wrapped:
                    bad.append(x)
    return bad


def scan_b(trees):
    """[(verdict, module key, node, function name, detail)] for a dict of module trees: memoised functions anywhere, call
    sites (by name) anywhere."""
    for t in trees.values():
        _set_parents(t)
    out = []
    for mod, tree in sorted(trees.items()):
        for name, (node, typed) in _memo_decorated(tree).items():
            sites = [(m2, c) for m2, t2 in sorted(trees.items()) for c in ast.walk(t2)
                     if isinstance(c, ast.Call) and (dotted(c.func) or "").split(".")[-1] == name]
            raw = [(m2, c, x) for m2, c in sites for x in _raw_scalar_args(c)]
            if raw and not typed:
                out.append(("bad", raw[0][0], raw[0][1], name, ast.unparse(raw[0][2])))
            else:
                out.append(("ok", mod, node, name, f"{len(sites)} call site(s); {'typed=True' if typed else 'no raw scalar argument'}"))
    return out


def e13b(ctx):
    m = ctx.model
    ctx.rule("E13b", "a value-keyed memo (functools.lru_cache / cache without typed=True) is never handed a node's raw Python "
                     "object: 1, 1.0 and True are equal and hash alike, so the result cached for one is served for the others - "
                     "a pair that differs only in a scalar's type gets the cost of an equal pair computed earlier")
    pos = [v for v, *_ in scan_b({"p": ast.parse(POSITIVE_B)})]
    neg = [v for v, *_ in scan_b({"n": ast.parse(NEGATIVE_B)})]
    if pos != ["bad"] or neg != ["ok", "ok"]:
        raise Inconclusive(f"E13b self-test: embedded examples judged {pos} / {neg}")
    n = bad = 0
    for verdict, mod, node, name, detail in scan_b(m.mods):
        if True:
            n += 1
            fl = m.files[mod]
            if verdict == "bad":
                bad += 1
                ctx.violation("E13b", fl, name, node, f"{name} memo key",
                              f"`{ast.unparse(node)[:80]}` passes `{detail}` to {name}(), which is memoised by value without typed=True: "
                              f"1 == 1.0 == True share one cache entry, so after (1, 1) -> 0 was cached, (1, True) is answered 0 as well "
                              f"and documents that differ only in a scalar's type compare as equal - depending on what was compared before")
            else:
                ctx.proved("E13b", fl, name, node, f"{name} memo key", detail)
    if not bad:
        ctx.proved("E13b", "graphtage/", "-", None, "no value-keyed memo over raw scalars",
                   f"{len(m.mods)} modules scanned, {n} memoised function(s) (embedded positive and negative examples judged as expected)")
    ctx.floor("E13b", len(m.mods), 20, "modules scanned for memo decorators")
