"""C12: an integer written in a radix notation (JSON5/YAML/plist hex, YAML binary/octal/sexagesimal) may exceed
Python's 4300-digit limit for int->str conversion: the loader accepts the document, the formatter raises ValueError."""
import io
import os
import sys
import tempfile

import graphtage
from graphtage.printer import Printer

HEX = '0x' + 'f' * 3600          # 16**3600 - 1 has 4335 decimal digits

DOCS = [
    ('json5', '[1, ' + HEX + ']'),
    ('yaml', 'a: ' + HEX + '\n'),
    ('yaml', 'a: 0b' + '1' * 14400 + '\n'),
    ('plist', '<plist version="1.0"><array><integer>' + HEX + '</integer></array></plist>'),
]


def load(ft, data: bytes):
    fd, path = tempfile.mkstemp()
    try:
        os.write(fd, data)
        os.close(fd)
        return ft.build_tree(path)
    finally:
        os.unlink(path)


def main() -> int:
    failures = []
    for name, text in DOCS:
        ft = graphtage.FILETYPES_BY_TYPENAME[name]
        try:
            tree = load(ft, text.encode('utf-8'))
        except Exception as e:
            # the loader does not accept the document: nothing to print, so no violation for this one
            print(f'{name}: not accepted by the loader ({type(e).__name__}); skipped')
            continue
        out = io.StringIO()
        try:
            ft.get_default_formatter().print(Printer(out_stream=out, ansi_color=False, quiet=True), tree)
        except Exception as e:
            failures.append(f'{name}: loaded fine, but printing raised {type(e).__name__}: {str(e)[:90]}')
            continue
        try:
            again = load(ft, out.getvalue().encode('utf-8'))
        except Exception as e:
            failures.append(f'{name}: printed text rejected by the loader: {type(e).__name__}: {str(e)[:90]}')
            continue
        if again != tree:
            failures.append(f'{name}: printed text loads to a different document')
    for f in failures:
        print('VIOLATION', f)
    return 1 if failures else 0


if __name__ == '__main__':
    sys.exit(main())
