"""C06 witness: a string and a number/boolean whose str() coincide are matched at cost 0, so the diff of two
different documents is rendered without any change mark and one of the documents cannot be read back."""
import io
import json
import re
import sys

import graphtage
import graphtage.printer as gprinter
from graphtage import json as gjson
from graphtage.printer import Printer

gprinter.DEFAULT_PRINTER.quiet = True


def render(a, b, color, **build_options):
    opts = graphtage.BuildOptions(**build_options)
    ta, tb = gjson.build_tree(a, opts), gjson.build_tree(b, opts)
    out = io.StringIO()
    p = Printer(out, ansi_color=color, quiet=True, options={'join_lists': True, 'join_dict_items': True})
    with p:
        gjson.JSONFormatter.DEFAULT_INSTANCE.print(p, ta.diff(tb))
    return out.getvalue()


def has_marks(text):
    # plain markers, the arrow, red/green backgrounds, strike-through / under-plus combining marks
    return any(m in text for m in ('~~', '++', ' -> ', '\x1b[41m', '\x1b[42m', '̶', '̟'))


def strip_ansi(text):
    return re.sub(r'\x1b\[\d+m', '', text)


STRATEGIES = {
    'auto': dict(allow_key_edits=True, auto_match_keys=True),
    'match': dict(allow_key_edits=True, auto_match_keys=False),
    'none': dict(allow_key_edits=False, auto_match_keys=False),
}

failures = []
PAIRS = [
    (["1"], [1]),
    ("1", 1),
    ({"k": "True"}, {"k": True}),
    ([1.5], ["1.5"]),
    ({"k": ["x", "12"]}, {"k": ["x", 12]}),
]
for a, b in PAIRS:
    assert a != b
    for name, strategy in STRATEGIES.items():
        for color in (False, True):
            text = render(a, b, color, **strategy)
            if not has_marks(text):
                # no marks at all: then the text must at least be both documents at once, which is impossible
                parsed = json.loads(strip_ansi(text))
                failures.append(
                    f"strategy={name} color={color}: {json.dumps(a)} vs {json.dumps(b)} differ, but the rendering "
                    f"{strip_ansi(text)!r} carries no change mark; it reads back as {parsed!r} for BOTH documents"
                )

# a mixed case: marks are present, but deleting the removed/inserted parts does not give back the first document
text = render(["1.5", 2], [1.5], False)
first = re.sub(r'\+\+.*?\+\+', '', text)          # delete everything marked as inserted
first = re.sub(r' -> [^,\]]*', '', first)          # ... including the right-hand side of an arrow
first = re.sub(r'~~(.*?)~~', r'\1', first)         # keep what is marked as removed
first = re.sub(r',\s*,', ',', first)               # separator placement aside
first = re.sub(r'\[\s*,', '[', first)
first = re.sub(r',\s*\]', ']', first)
try:
    first_doc = json.loads(first)
except ValueError:
    first_doc = None  # a rendering this simple reader cannot follow: do not judge it
if first_doc is not None and first_doc != ["1.5", 2]:
    failures.append(f'["1.5", 2] vs [1.5] renders as {text!r}; the first document reads back as {first_doc!r}')

if failures:
    print("C06 VIOLATED (%d cases), e.g.:" % len(failures))
    for f in failures[:6]:
        print("  " + f)
    sys.exit(1)
print("ok")
sys.exit(0)
